"""C04 - define_moments! estimators of any order equal the exact central moments."""
import time

import common
from common import Result, build
import seqprop

PROP = 'C04'
RULE = ('Sequences from 10 shape families (scale 1e-25..1e25, offsets up to 1e12 spreads, restricted by the guard '
        'n*max|x|^N <= 1e300 and sigma^N >= 1e-280) fed one at a time to define_moments! instantiations of order '
        'N in {4,5,6,7,8,9,10} (defined in the harness as a downstream crate would) and the crate\'s Moments4, plus '
        'Variance/Skewness/Kurtosis on the same data; observed after every add (n<=64) or at geometric checkpoints; '
        'len, mean, central_moment(p) and standardized_moment(p) for every p in 0..=N are compared with the exact '
        'rational central moments within the section-2 envelopes (p=0,1 and standardized 0,1,2 exactly); sample sizes 2^16..2^56 by '
        'self-merging followed by single adds (exact multiset oracle); runs of 20000-200000 observations of magnitude 1e-27..1e-24 '
        'for orders 6, 8, 10. Agreement '
        'with Mean/Variance/Skewness/Kurtosis follows because all are held to envelopes around the same exact value. '
        'distinct_nontrivial = distinct (type, program) cases with >=1 non-trivial checked state.')
ASSUME = ['CPython int/Fraction arithmetic is exact; sqrt via isqrt to 2^-200', 'driver faithfully prints accessor bit patterns',
          'envelope constants of DESIGN.md section 2 (calibrated, fixed)']


def only_for(N):
    s = {'mean'}
    for p in range(N + 1):
        s.add('cm%d' % p)
        s.add('sm%d' % p)
    return sorted(s)


TYPES = [('Moments4', only_for(4)), ('M4', only_for(4)), ('M5', only_for(5)), ('M6', only_for(6)),
         ('M7', only_for(7)), ('M8', only_for(8)), ('M9', only_for(9)), ('M10', only_for(10)), ('Kurtosis', None), ('Variance', None)]


def run(tier, seed):
    t0 = time.time()
    base = {'prop': PROP, 'types': TYPES, 'P': 10, 'scale_range': (-27, 29.8), 'max_offset_exp': 12,
            'maxlen': 200, 'long_prob': 0.005}
    if tier == 'quick':
        nseq, variants, mult = 420, [('release', 1.0), ('dev', 0.3), ('std', 0.2), ('plain', 0.2), ('bare', 0.2)], 1
    else:
        nseq, variants, mult = 20000, [('release', 1.0), ('dev', 0.15), ('std', 0.15), ('plain', 0.15), ('bare', 0.1)], 8
    total = Result()
    try:
        for variant, frac in variants:
            binary = build(variant)
            descs = seqprop.make_descs(base, variant, binary, int(nseq * frac), common.NPROC * mult, seed)
            total.merge(common.run_shards(seqprop.shard, descs))
            if variant in ('release', 'dev'):
                # long runs at the small-magnitude end of the domain: (delta/n)^p is subnormal or zero there although delta^p
                # and the moments themselves are ordinary doubles
                import random
                lrng = random.Random(seed * 31 + len(variant))
                nlong = (4 if tier == 'quick' else 16) if variant == 'release' else 2
                ldescs = []
                for s in range(nlong):
                    n = lrng.choice([20000, 50000] if tier == 'quick' else [20000, 50000, 200000])
                    sc = 10.0 ** lrng.uniform(-27.5, -24.0)
                    sh = lrng.choice(['uniform', 'gauss', 'skewed'])
                    xs = [sc * (lrng.uniform(-1, 1) if sh == 'uniform' else lrng.gauss(0, 0.4) if sh == 'gauss' else lrng.expovariate(2.0))
                          for _ in range(n)]
                    ldescs.append({'prop': PROP, 'types': [('M8', only_for(8)), ('M10', only_for(10)), ('M6', only_for(6))], 'P': 10,
                                   'sequences': [xs], 'final_only': True, 'name': 'long%s%d' % (variant[0], s), 'variant': variant,
                                   'binary': binary, 'seed': seed * 77 + s, 'nseq': 0})
                lres = common.run_shards(seqprop.shard, ldescs)
                lres.counters['long_small_magnitude_cases'] = lres.counters.get('cases', 0)
                total.merge(lres)
                # sample sizes beyond 2^32 / 2^53 (self-merging), then single adds: the add path with a huge n
                import bigcount
                bc = [(t, ka, kb) for t in ('Moments4', 'M4', 'M5', 'M6', 'M7', 'M8', 'M9', 'M10') for ka, kb in [(16, 16), (32, 32), (33, 0), (40, 20), (53, 0), (54, 54), (62, 62)]]
                bdescs = [{'name': 'b%s%d' % (variant[0], s), 'variant': variant, 'binary': binary, 'work': bc[s::8], 'prop': PROP,
                           'only': dict(TYPES), 'seed': seed * 7 + s} for s in range(8)]
                total.merge(common.run_shards(bigcount.shard, bdescs))
    except common.Inconclusive as e:
        total.inconclusive.append(str(e))
    need = {'long_small_magnitude_cases': 12, 'nontrivial_states': 1000, 'bigcount_states_above_2^32': 50, 'bigcount_states_above_2^53': 20, 'bigcount_states_from_2^63': 8}
    for t, _ in TYPES:
        need['cases_%s' % t] = 50
    return common.finish(PROP, tier, seed, total, RULE, t0, ASSUME, min_events=need,
                         extra={'builds': [v for v, _ in variants], 'orders_N': [4, 5, 6, 7, 8, 9, 10]})
