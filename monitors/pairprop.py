"""Workload runner shared by C08 (weighted mean) and C09 (covariance)."""
import random

import common
from common import Case, Result, run_driver
import gen
import pairs
import seqcheck as sc


def interleave(a, b):
    out = []
    for x, y in zip(a, b):
        out.append(x)
        out.append(y)
    return out


def weights_for(rng, n):
    pattern = rng.choice(['random', 'random', 'zero_first', 'zero_last', 'zero_run', 'zero_prefix', 'unit', 'sparse'])
    ws = [10.0 ** rng.uniform(-6, 6) for _ in range(n)]
    if pattern == 'random':
        ws = [0.0 if rng.random() < 0.2 else w for w in ws]
    elif pattern == 'zero_first':
        ws[0] = 0.0
    elif pattern == 'zero_last':
        ws[-1] = 0.0
    elif pattern == 'zero_run':
        a = rng.randrange(n)
        b = rng.randint(a, n)
        for i in range(a, b):
            ws[i] = 0.0
    elif pattern == 'zero_prefix':
        k = rng.randint(1, max(1, n // 2))
        for i in range(min(k, n)):
            ws[i] = 0.0
    elif pattern == 'unit':
        ws = [1.0] * n
    elif pattern == 'sparse':
        keep = rng.randrange(n)
        ws = [w if (i == keep or rng.random() < 0.15) else 0.0 for i, w in enumerate(ws)]
    if sum(ws) == 0.0:
        ws[rng.randrange(n)] = 10.0 ** rng.uniform(-6, 6)
    return ws, pattern


def ys_for(rng, xs):
    n = len(xs)
    kind = rng.choice(['independent', 'collinear_pos', 'collinear_neg', 'noisy', 'noisy', 'smallint', 'tiny_alphabet'])
    if kind == 'tiny_alphabet':
        # both coordinates from 2-3 values: repeated pairs, observations sitting exactly on the running means
        ax = [rng.choice([0.0, 1.0, -2.0, 0.5, 3.0]) for _ in range(rng.randint(2, 3))]
        ay = [rng.choice([0.0, 1.0, -2.0, 0.5, 3.0]) for _ in range(rng.randint(2, 3))]
        xs[:] = [rng.choice(ax) for _ in range(n)]
        if rng.random() < 0.5 and n >= 2:
            xs[1] = xs[0]
        ys = [rng.choice(ay) for _ in range(n)]
        if n >= 2 and xs[1] == xs[0]:
            ys[1] = ys[0]
        if n >= 3 and rng.random() < 0.5:
            xs[0], xs[1], xs[2] = 1.0, 3.0, 2.0
            ys[0], ys[1], ys[2] = -2.0, 0.0, -1.0
        return ys, kind
    if kind == 'independent':
        ys, _ = gen.sequence(rng, n=n)
        return ys, kind
    if kind in ('collinear_pos', 'collinear_neg'):
        # exactly collinear in exact arithmetic: small integers times powers of two
        base = [float(rng.randint(-50, 50)) for _ in range(n)]
        if len(set(base)) < 2 and n >= 2:
            base[0] += 1.0
        a = (1 if kind == 'collinear_pos' else -1) * 2.0 ** rng.randint(-20, 20)
        b = float(rng.randint(-1000, 1000)) * 2.0 ** rng.randint(-10, 30)
        sc_ = 2.0 ** rng.randint(-30, 30)
        xs[:] = [v * sc_ for v in base]
        return [a * v * sc_ + b for v in base], kind
    if kind == 'noisy':
        rho = rng.choice([0.999999, 0.99, 0.9, 0.5, 0.1, 0.0, -0.1, -0.5, -0.9, -0.99, -0.999999])
        lo, hi = min(xs), max(xs)
        span = (hi - lo) or 1.0
        mid = (hi + lo) / 2
        yscale = 10.0 ** rng.uniform(-20, 20)
        yoff = rng.choice([0.0, 0.0, 10.0 ** rng.uniform(0, 9) * rng.choice([-1, 1])])
        ys = []
        for x in xs:
            z = (x - mid) / span * 3.46
            e = rng.gauss(0, 1)
            ys.append(gen.clampC01((rho * z + (1 - rho * rho) ** 0.5 * e + yoff) * yscale))
        return ys, 'noisy(rho=%g)' % rho
    ys = [float(rng.randint(-3, 3)) for _ in range(n)]
    return ys, kind


def shard(desc):
    """desc: prop, kind ('weighted'|'cov'), name, seed, nseq, binary, variant"""
    rng = random.Random(desc['seed'])
    res = Result()
    prop, kind, variant = desc['prop'], desc['kind'], desc['variant']
    cases, plan = [], []
    cid = 0

    def newid():
        nonlocal cid
        cid += 1
        return '%s-%d' % (desc['name'], cid)

    for i in range(desc['nseq']):
        r = rng.random()
        n = rng.randint(1, 12) if r < 0.5 else (rng.randint(12, 200) if r < 0.97 else rng.randint(500, 3000))
        xs, meta = gen.sequence(rng, n=n, scale_range=(-25, 25), max_offset_exp=desc.get('max_offset_exp', 12))
        if kind == 'weighted':
            second, pat = weights_for(rng, n)
            oracle = pairs.WeightedOracle(xs, second)
            types = ['WeightedMean', 'WeightedMeanWithError']
        else:
            xs = list(xs)
            second, pat = ys_for(rng, xs)
            oracle = pairs.CovOracle(xs, second)
            types = ['Covariance']
        meta = dict(meta)
        meta['second'] = pat
        flat = interleave(xs, second)
        for typ in types:
            # (A) one at a time, observed at every checkpoint
            c, marks = sc.prefix_case(newid(), typ, xs, meta=meta, weights=second, noise=(rng if rng.random() < 0.15 else None),
                                      serde_ok=common.has_serde(desc['variant']))
            if c.meta.get('noise'):
                res.count('cases_with_invisible_ops')
            cases.append(c)
            plan.append(('prefix', c, marks, oracle, typ, False))
            # (B) collect / extend in one go
            how = rng.choice(['F', 'FR', 'E', 'ER'])
            c = Case(newid(), typ, meta=dict(meta, how=how))
            if how in ('F', 'FR'):
                c.op(how, 0, flat)
            else:
                c.op('N', 0)
                cut = rng.randint(0, n)
                c.op(how, 0, flat[:2 * cut])
                c.op(how, 0, flat[2 * cut:])
            marks = [(c.op('O', 0), n)]
            cases.append(c)
            plan.append(('prefix', c, marks, oracle, typ, False))
            res.count('built_by_%s' % how)
            # (C) merge histories
            if n >= 2:
                for rep in range(desc.get('hist_per_seq', 2)):
                    k = rng.randint(2, 10)
                    sizes = gen.random_composition(rng, n, k)
                    tree = gen.random_tree(rng, 0, k, rng.choice(['random', 'random', 'left', 'right', 'balanced']))
                    chunks = gen.chunks_of(flat, sizes, arity=2)
                    c = Case(newid(), typ, meta=dict(meta, sizes=list(sizes), tree=gen.tree_signature(tree)))
                    tc = gen.TreeCompiler(c, chunks, arity=2, leaf_how=rng.choice(['add', 'collect', 'extend_ref']))
                    tc.build(tree)
                    cases.append(c)
                    plan.append(('tree', c, tc, oracle, typ, sizes))
        if kind == 'cov':
            # swap check: feed (y, x)
            c, marks = sc.prefix_case(newid(), 'Covariance', second, meta=dict(meta, swapped=True), weights=xs)
            cases.append(c)
            plan.append(('prefix', c, marks, oracle, 'Covariance', True))
    # lopsided merges: one chunk thousands to >65536 times larger than the other, both operand orders
    for nbig, nsmall in desc.get('lopsided', []):
        big, meta = gen.sequence(rng, n=nbig, scale_range=(-3, 3), max_offset_exp=3, need_spread=True,
                                 shape=rng.choice(['normal', 'exp_pos', 'arith', 'lognormal']))
        far = rng.choice([-1.0, 1.0]) * (max(abs(x) for x in big) * rng.choice([3.0, 50.0]) + 1.0)
        small = [far * (1 + 0.1 * i) for i in range(nsmall)]
        for small_first in (True, False):
            xs = (small + big) if small_first else (big + small)
            n = len(xs)
            if kind == 'weighted':
                second = [10.0 ** rng.uniform(-3, 3) for _ in range(n)]
                oracle = pairs.WeightedOracle(xs, second)
                types = ['WeightedMeanWithError', 'WeightedMean']
            else:
                second = [0.3 * x + rng.gauss(0, 1) * (abs(far) * 0.01 + 1.0) for x in xs]
                oracle = pairs.CovOracle(xs, second)
                types = ['Covariance']
            flat = interleave(xs, second)
            sizes = (nsmall, nbig) if small_first else (nbig, nsmall)
            for typ in types:
                for orient in (0, 1):
                    c = Case(newid(), typ, meta={'lopsided': True, 'sizes': list(sizes), 'tree': '(LL%d)' % orient})
                    tc = gen.TreeCompiler(c, gen.chunks_of(flat, sizes, arity=2), arity=2)
                    tc.build((0, 1, orient))
                    cases.append(c)
                    plan.append(('tree', c, tc, oracle, typ, sizes))
                    res.count('lopsided_histories')
    logs = run_driver(desc['binary'], ''.join(c.text() for c in cases), timeout=3600)
    for item in plan:
        mode, c = item[0], item[1]
        recs = logs.get(c.id)
        if recs is None:
            res.inconclusive.append('case %s missing' % c.id)
            continue
        for r in recs:
            if r.kind in ('p', 'e', 'd'):
                res.violation(prop, '%s:%s' % (c.type, 'panic' if r.kind == 'p' else 'harness'),
                              '%s: op %d (%s) -> %s %s' % (c.type, r.op, c.ops[r.op][:60], r.kind, r.rest), c, variant)
        by_op = {r.op: r for r in recs if r.kind == 'o'}
        nt_any = False
        if mode == 'prefix':
            _, _, marks, oracle, typ, swap = item
            for opi, k in marks:
                r = by_op.get(opi)
                if r is None:
                    continue
                if kind == 'weighted':
                    nt = pairs.judge_weighted(prop, typ, oracle, 0, k, r.kv, res, c, variant, context='after %d adds' % k)
                else:
                    nt = pairs.judge_cov(prop, oracle, 0, k, r.kv, res, c, variant, swap=swap, context='after %d adds' % k)
                    if swap:
                        res.count('swapped_states')
                if nt:
                    nt_any = True
                    res.count('nontrivial_states')
        else:
            _, _, tc, oracle, typ, sizes = item
            offs = [0]
            for s in sizes:
                offs.append(offs[-1] + s)
            for opi, (clo, chi), _k in tc.obs:
                r = by_op.get(opi)
                if r is None:
                    continue
                lo, hi = offs[clo], offs[chi]
                ctx = 'at merge node over pairs %d..%d (chunks %s, tree %s)' % (lo, hi, list(sizes), c.meta['tree'])
                if kind == 'weighted':
                    nt = pairs.judge_weighted(prop, typ, oracle, lo, hi, r.kv, res, c, variant, context=ctx)
                else:
                    nt = pairs.judge_cov(prop, oracle, lo, hi, r.kv, res, c, variant, context=ctx)
                if nt:
                    nt_any = True
                    res.count('nontrivial_merge_nodes')
            res.count('merge_histories')
            for a, b in tc.merges:
                if a == 0:
                    res.count('merge_into_empty')
                if b == 0:
                    res.count('merge_of_empty')
            if kind == 'weighted':
                # chunks whose weights are all zero
                ws = oracle.ws
                for j, s in enumerate(sizes):
                    if s > 0 and all(w == 0.0 for w in ws[offs[j]:offs[j + 1]]):
                        res.count('all_zero_weight_chunks')
        res.count('cases')
        if nt_any:
            res.distinct.add(c.key())
        if len(res.samples) < 2 and nt_any and len(c.ops) < 16:
            res.sample({'type': c.type, 'program': c.ops, 'meta': c.meta,
                        'last_observation': {k: common.show(v) for k, v in [r for r in recs if r.kind == 'o'][-1].kv.items()}})
    return res
