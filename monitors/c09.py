"""C09 - Covariance reports exact means, variances, covariance and Pearson correlation."""
import time

import common
from common import Result, build
import pairprop

PROP = 'C09'
RULE = ('(x, y) sequences: x from the 10 section-3.1 shape families (scale 1e-25..1e25, offsets to 1e12 spreads); y independent, '
        'exactly collinear (both slopes; dyadic data so collinearity is exact), noisy-linear with correlation from +-0.999999 to '
        '0 and an independent offset up to 1e9, or small integers; built one at a time (observed after every add), by collect / '
        'extend (value and reference) and by random merge histories (k<=10 chunks, empty chunks, comb / balanced / random trees); '
        'each sequence is also fed with x and y swapped. Every accessor is compared with exact rational means, Sxx, Syy, Sxy '
        'within the section-2 envelopes with kappa = max(kappa_x, kappa_y); pearson on scale 1. distinct_nontrivial = distinct '
        '(program) cases with a checked state having n>=2, both spreads >0 and a non-vacuous envelope.')
ASSUME = ['CPython int/Fraction arithmetic is exact; sqrt via isqrt to 2^-200', 'driver faithfully prints accessor bit patterns',
          'envelope constants of DESIGN.md section 2 (calibrated, fixed)']


def run(tier, seed):
    t0 = time.time()
    total = Result()
    if tier == 'quick':
        nseq, variants, mult = 2800, [('release', 1.0), ('dev', 0.3), ('std', 0.15)], 1
    else:
        nseq, variants, mult = 60000, [('release', 1.0), ('dev', 0.2), ('std', 0.1)], 8
    try:
        for variant, frac in variants:
            binary = build(variant)
            nsh = common.NPROC * mult
            descs = [{'prop': PROP, 'kind': 'cov', 'name': '%s%d' % (variant[0], s), 'variant': variant, 'binary': binary,
                      'nseq': max(1, int(nseq * frac) // nsh),
                      'lopsided': ([[(1100, 1)], [(4500, 2)], [(9000, 1)], [(70000, 1)]][s] if (s < 4 and variant == 'release') else []),
                      'seed': seed * 1000003 + s * 7919 + sum(map(ord, variant))} for s in range(nsh)]
            total.merge(common.run_shards(pairprop.shard, descs))
    except common.Inconclusive as e:
        total.inconclusive.append(str(e))
    need = {'lopsided_histories': 8, 'nontrivial_states': 1000, 'merge_histories': 500, 'nontrivial_merge_nodes': 500, 'swapped_states': 500,
            'exactly_collinear_states': 100, 'weak_correlation_states': 100, 'positive_correlation_states': 100,
            'negative_correlation_states': 100}
    return common.finish(PROP, tier, seed, total, RULE, t0, ASSUME, min_events=need,
                         extra={'builds': [v for v, _ in variants]})
