"""C09 - Covariance reports exact means, variances, covariance and Pearson correlation."""
import time

import common
from common import Result, build
import pairprop

PROP = 'C09'
RULE = ('(x, y) sequences: x from the 10 section-3.1 shape families (scale 1e-25..1e25, offsets to 1e12 spreads); y independent, '
        'exactly collinear (both slopes; dyadic data so collinearity is exact), noisy-linear with correlation from +-0.999999 to '
        '0 and an independent offset up to 1e9, or small integers; built one at a time (observed after every add), by collect / '
        'extend (value and reference) and by random merge histories (k<=10 chunks, empty chunks, comb / balanced / random trees); '
        'each sequence is also fed with x and y swapped; sample sizes 2^16..2^61 by repeated self-merging (exact multiset oracle). Every accessor is compared with exact rational means, Sxx, Syy, Sxy '
        'within the section-2 envelopes with kappa = max(kappa_x, kappa_y); pearson on scale 1. distinct_nontrivial = distinct '
        '(program) cases with a checked state having n>=2, both spreads >0 and a non-vacuous envelope.')
ASSUME = ['CPython int/Fraction arithmetic is exact; sqrt via isqrt to 2^-200', 'driver faithfully prints accessor bit patterns',
          'envelope constants of DESIGN.md section 2 (calibrated, fixed)']


def bigcount(binary, variant, seed):
    """Sample sizes from 2^16 to beyond 2^53 by repeated self-merging; two huge operands with different means merged (both
    orientations); single adds afterwards.  The multiset is known exactly, so the exact oracle still applies."""
    import random
    import pairs
    from common import Case
    rng = random.Random(seed)
    res = Result()
    cases, plan = [], []
    for ka, kb in [(16, 16), (31, 31), (32, 32), (33, 0), (33, 33), (40, 20), (53, 1), (54, 54), (60, 3)]:
        for rep in range(2):
            sl = rng.choice([1.0, -0.5, 0.25, -2.0])
            pa = [(float(rng.randint(-20, 20)) + 0.5, 0.0) for _ in range(rng.randint(2, 4))]
            pa = [(x, sl * x + float(rng.randint(-3, 3))) for x, _ in pa]
            pb = [(float(rng.randint(30, 60)), float(rng.randint(-40, 40)) + 0.25) for _ in range(rng.randint(1, 3))]
            extras = [(float(rng.randint(100, 300)), float(rng.randint(-300, 300))), (-7.5, 0.0), (1.25, 1.0)]
            c = Case('bc-%d-%d-%d' % (ka, kb, rep), 'Covariance', meta={'ka': ka, 'kb': kb})
            c.op('N', 0)
            c.op('A', 0, [v for p in pa for v in p])
            for _ in range(ka):
                c.op('M', 0, 0)
            c.op('N', 1)
            c.op('A', 1, [v for p in pb for v in p])
            for _ in range(kb):
                c.op('M', 1, 1)
            marks = [(c.op('O', 0), list(pa), [2 ** ka] * len(pa))]
            r_ = rng.randint(0, 1)
            c.op('M', r_, 1 - r_)
            pts, counts = pa + pb, [2 ** ka] * len(pa) + [2 ** kb] * len(pb)
            marks.append((c.op('O', r_), list(pts), list(counts)))
            for e in extras:
                c.op('A', r_, list(e))
                pts, counts = pts + [e], counts + [1]
                marks.append((c.op('O', r_), list(pts), list(counts)))
            cases.append(c)
            plan.append((c, marks))
    logs = common.run_driver(binary, ''.join(c.text() for c in cases))
    for c, marks in plan:
        recs = logs[c.id]
        for r in recs:
            if r.kind in ('p', 'e', 'd'):
                res.violation(PROP, 'Covariance:%s' % ('panic' if r.kind == 'p' else 'harness'),
                              'Covariance with 2^%d / 2^%d-fold self-merged operands: op %d -> %s' % (c.meta['ka'], c.meta['kb'], r.op, r.rest), c, variant)
        by_op = {r.op: r for r in recs if r.kind == 'o'}
        for opi, pts, cnt in marks:
            if opi in by_op:
                pairs.judge_cov_multiset(PROP, pts, cnt, by_op[opi].kv, res, c, variant,
                                         context='(self-merged 2^%d and 2^%d times)' % (c.meta['ka'], c.meta['kb']))
                res.count('bigcount_states')
                if sum(cnt) > 2 ** 53:
                    res.count('bigcount_states_above_2^53')
        res.distinct.add(c.key())
    return res


def run(tier, seed):
    t0 = time.time()
    total = Result()
    if tier == 'quick':
        nseq, variants, mult = 2800, [('release', 1.0), ('dev', 0.3), ('std', 0.15), ('bare', 0.15)], 1
    else:
        nseq, variants, mult = 60000, [('release', 1.0), ('dev', 0.2), ('std', 0.1), ('bare', 0.1)], 8
    try:
        for variant, frac in variants:
            binary = build(variant)
            nsh = common.NPROC * mult
            descs = [{'prop': PROP, 'kind': 'cov', 'name': '%s%d' % (variant[0], s), 'variant': variant, 'binary': binary,
                      'nseq': max(1, int(nseq * frac) // nsh),
                      'lopsided': ([[(1100, 1)], [(4500, 2)], [(9000, 1)], [(70000, 1)]][s] if (s < 4 and variant == 'release') else []),
                      'seed': seed * 1000003 + s * 7919 + sum(map(ord, variant))} for s in range(nsh)]
            total.merge(common.run_shards(pairprop.shard, descs))
            if variant in ('release', 'dev'):
                total.merge(bigcount(binary, variant, seed))
    except common.Inconclusive as e:
        total.inconclusive.append(str(e))
    need = {'bigcount_states': 100, 'bigcount_states_above_2^53': 20, 'lopsided_histories': 8, 'nontrivial_states': 1000, 'merge_histories': 500, 'nontrivial_merge_nodes': 500, 'swapped_states': 500,
            'exactly_collinear_states': 100, 'weak_correlation_states': 100, 'positive_correlation_states': 100,
            'negative_correlation_states': 100}
    return common.finish(PROP, tier, seed, total, RULE, t0, ASSUME, min_events=need,
                         extra={'builds': [v for v, _ in variants]})
