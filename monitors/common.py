"""Shared infrastructure of the monitors: f64 <-> bit pattern, building and running the
driver, parsing its log, sharding over processes, verdict / evidence / replay / known-findings
handling.  Standard library only."""
import hashlib
import json
import math
import multiprocessing
import os
import struct
import subprocess
import sys
import time
import traceback

VERIF = os.path.dirname(os.path.dirname(os.path.abspath(__file__)))
# The registered checks always use /verif/harness, which path-depends on /repo.  The two environment overrides below
# exist only for tools/seedlab.py, which evaluates seeded changes on scratch copies (own repo worktree, own harness
# copy, own output directory) so that /repo and /verif/evidence are not disturbed.
HARNESS = os.environ.get('VERIF_HARNESS') or os.path.join(VERIF, 'harness')
REPO = '/repo'
_OUT = os.environ.get('VERIF_OUT') or VERIF
EVIDENCE_DIR = os.path.join(_OUT, 'evidence')
REPLAY_DIR = os.path.join(_OUT, 'replays')
KNOWN_FINDINGS = os.path.join(VERIF, 'known_findings.txt')
NPROC = min(16, os.cpu_count() or 4)

# ------------------------------------------------------------------ f64 helpers

def f2h(x):
    return '%016x' % struct.unpack('<Q', struct.pack('<d', x))[0]


def h2f(s):
    return struct.unpack('<d', struct.pack('<Q', int(s, 16)))[0]


def bits(x):
    return struct.unpack('<Q', struct.pack('<d', x))[0]


def frombits(b):
    return struct.unpack('<d', struct.pack('<Q', b & 0xFFFFFFFFFFFFFFFF))[0]


def nextafter_up(x):
    return math.nextafter(x, math.inf)


def nextafter_down(x):
    return math.nextafter(x, -math.inf)


def ulp(x):
    return math.ulp(x)


def val(tok):
    """Decode a value token of the driver log."""
    if tok == '!':
        return PANIC
    c = tok[0]
    if c == 'u' or c == 'i':
        return int(tok[1:])
    if c == 'b' and len(tok) == 2:
        return tok[1] == '1'
    if c == 's':
        return tok[1:]
    if tok == 'null':
        return None
    return h2f(tok)


class _Panic:
    def __repr__(self):
        return 'PANIC'


PANIC = _Panic()


def same_bits(a_tok, b_tok):
    """Bit-for-bit equality on log tokens, except that every NaN equals every NaN."""
    if a_tok == b_tok:
        return True
    if len(a_tok) == 16 and len(b_tok) == 16 and a_tok[0] not in 'uis' and b_tok[0] not in 'uis':
        try:
            a, b = h2f(a_tok), h2f(b_tok)
        except ValueError:
            return False
        return a != a and b != b
    return False


def show(tok):
    v = val(tok) if isinstance(tok, str) else tok
    if isinstance(v, float):
        return '%r[%s]' % (v, f2h(v))
    return repr(v)

# ------------------------------------------------------------------ cases


class Case:
    """A straight-line program over registers of one estimator type."""
    __slots__ = ('id', 'type', 'params', 'ops', 'meta')

    def __init__(self, cid, typ, params=(), meta=None):
        self.id = str(cid)
        self.type = typ
        self.params = list(params)
        self.ops = []
        self.meta = meta if meta is not None else {}

    def op(self, *toks):
        """Append an op; floats are encoded; returns the op index."""
        enc = []
        for t in toks:
            if isinstance(t, float):
                enc.append(f2h(t))
            elif isinstance(t, (list, tuple)):
                enc.extend(f2h(float(x)) if isinstance(x, float) else str(x) for x in t)
            else:
                enc.append(str(t))
        self.ops.append(' '.join(enc))
        return len(self.ops) - 1

    def text(self):
        head = 'C %s %s' % (self.id, self.type)
        if self.params:
            head += ' ' + ' '.join(f2h(p) if isinstance(p, float) else str(p) for p in self.params)
        return head + '\n' + '\n'.join(self.ops) + '\nX\n'

    def to_json(self):
        return {'id': self.id, 'type': self.type,
                'params': [f2h(p) if isinstance(p, float) else p for p in self.params],
                'ops': self.ops, 'meta': self.meta}

    @staticmethod
    def from_json(d):
        c = Case(d['id'], d['type'], [], d.get('meta', {}))
        c.params = [h2f(p) if isinstance(p, str) and len(p) == 16 else p for p in d['params']]
        c.ops = list(d['ops'])
        return c

    def key(self):
        h = hashlib.blake2b(digest_size=8)
        h.update(self.type.encode())
        h.update(repr(self.params).encode())
        h.update('\n'.join(self.ops).encode())
        return h.digest()


class Rec:
    """One log record.  kind in o,s,p,e,d,r,f,a,t,q"""
    __slots__ = ('kind', 'op', 'reg', 'kv', 'rest')

    def __init__(self, kind, op, reg, kv, rest):
        self.kind = kind
        self.op = op
        self.reg = reg
        self.kv = kv
        self.rest = rest

    def __repr__(self):
        return 'Rec(%s op=%s reg=%s %s %s)' % (self.kind, self.op, self.reg, self.kv, self.rest)

    def brief(self):
        if self.kv is not None:
            return '%s op=%d %s' % (self.kind, self.op, ' '.join('%s=%s' % (k, v) for k, v in self.kv.items()))
        return '%s op=%d %s' % (self.kind, self.op, self.rest)


def parse_log(text):
    """-> dict case-id -> list[Rec] (in op order)"""
    cases = {}
    cur = None
    for line in text.split('\n'):
        if not line:
            continue
        k = line[0]
        if k == 'C' and line[1] == ' ':
            cur = []
            cases[line[2:]] = cur
            continue
        if k == 'X' and line[1] == ' ':
            cur = None
            continue
        if cur is None:
            continue
        toks = line.split(' ')
        kind = toks[0]
        op = int(toks[1])
        if kind in ('o', 's'):
            kv = {}
            for t in toks[3:]:
                i = t.find('=')
                kv[t[:i]] = t[i + 1:]
            cur.append(Rec(kind, op, int(toks[2]), kv, None))
        elif kind == 't':
            kv = {}
            for t in toks[3:]:
                i = t.find('=')
                kv[t[:i]] = t[i + 1:]
            cur.append(Rec(kind, op, None, kv, toks[2]))
        else:
            cur.append(Rec(kind, op, None, None, ' '.join(toks[2:])))
    return cases

# ------------------------------------------------------------------ driver builds


class Inconclusive(Exception):
    pass


VARIANTS = {
    # name: (cargo args, binary path relative to harness)
    'release': (['cargo', 'build', '--release'], 'target/release/avdrive'),
    'dev': (['cargo', 'build'], 'target/debug/avdrive'),
    'std': (['cargo', 'build', '--release', '--no-default-features', '--features', 'std,rayon,serde',
             '--target-dir', 'target/std'], 'target/std/release/avdrive'),
    # the configuration the crate's own test suite runs in: default features only (libm), i.e. WITHOUT serde and rayon, so
    # that the #[cfg(not(feature = "serde"))] variants of define_moments! / define_histogram! are the ones exercised
    'plain': (['cargo', 'build', '--release', '--no-default-features', '--features', 'libm',
               '--target-dir', 'target/plain'], 'target/plain/release/avdrive'),
    'nightly': (['cargo', '+nightly', 'build', '--release', '--features', 'nightly',
                 '--target-dir', 'target/nightly'], 'target/nightly/release/avdrive'),
    # no features at all: neither std nor libm (no float functions: Skewness, Kurtosis, Quantile, error(), pearson(),
    # standardized_moment() do not exist), no serde, no rayon.  The crate's own test suite cannot even be compiled this way.
    'bare': (['cargo', 'build', '--release', '--no-default-features', '--target-dir', 'target/bare'], 'target/bare/release/avdrive'),
    # the std build compiled for the machine's own CPU (-C target-cpu=native): code under cfg(target_feature = "fma" / "avx2" ...)
    # and whatever the vectoriser does differently
    'native': (['cargo', 'build', '--release', '--no-default-features', '--features', 'std,rayon,serde',
                '--target-dir', 'target/native'], 'target/native/release/avdrive'),
    # ThreadSanitizer build (std rebuilt with the sanitizer, otherwise "ABI mismatch"); used by the thorough tier of C19
    'tsan': (['cargo', '+nightly', 'build', '-Zbuild-std', '--target', 'x86_64-unknown-linux-gnu', '--release',
              '--target-dir', 'target/tsan'], 'target/tsan/x86_64-unknown-linux-gnu/release/avdrive'),
}
VARIANT_ENV = {'tsan': {'RUSTFLAGS': '-Zsanitizer=thread'}, 'native': {'RUSTFLAGS': '-C target-cpu=native'}}

_built = {}

NO_SERDE = ('plain', 'bare')
NO_RAYON = ('plain', 'bare')
BARE_ABSENT_TYPES = ('Skewness', 'Kurtosis', 'Quantile', 'CatVarQ', 'Cat5', 'CatSk3')


def has_serde(variant):
    return variant not in NO_SERDE


def has_rayon(variant):
    return variant not in NO_RAYON


def has_type(variant, typ):
    return not (variant == 'bare' and (typ in BARE_ABSENT_TYPES or typ.startswith('Probe')))


def absent_ok(variant, name):
    """Accessors that do not exist in the build without std / libm.  (If the driver does report one there - the crate grew
    the method - it is judged like anywhere else.)"""
    return variant == 'bare' and (name in ('error', 'pearson', 'sample_skewness', 'sample_excess_kurtosis')
                                  or (name.startswith('sm') and name[2:].isdigit()))



def cargo_env():
    env = dict(os.environ)
    env['CARGO_NET_OFFLINE'] = 'true'
    env.pop('RUSTFLAGS', None)
    return env


def build(variant):
    """Build (or refresh) the driver from /repo's current working tree.  -> binary path"""
    if variant in _built:
        return _built[variant]
    args, rel = VARIANTS[variant]
    t0 = time.time()
    env = cargo_env()
    env.update(VARIANT_ENV.get(variant, {}))
    r = subprocess.run(args, cwd=HARNESS, env=env, capture_output=True, text=True)
    if r.returncode != 0:
        sys.stderr.write(r.stderr[-6000:])
        raise Inconclusive('driver build failed for variant %s (cargo exit %d)' % (variant, r.returncode))
    path = os.path.join(HARNESS, rel)
    _built[variant] = path
    sys.stderr.write('[build %s: %.1fs]\n' % (variant, time.time() - t0))
    return path


def rustc_version(toolchain=None):
    args = ['rustc'] + (['+' + toolchain] if toolchain else []) + ['--version']
    try:
        return subprocess.run(args, capture_output=True, text=True).stdout.strip()
    except Exception:
        return 'unknown'


class SanitizerReport(Exception):
    pass


def run_driver(binary, text, timeout=1800, sanitizer=False):
    """Run the driver on case text.  A crash or watchdog timeout is Inconclusive, never a
    violation.  With sanitizer=True (ThreadSanitizer build) exit code 66 / a report on stderr raises
    SanitizerReport with the report text."""
    env = None
    if sanitizer:
        env = dict(os.environ, TSAN_OPTIONS='halt_on_error=0 exitcode=66 second_deadlock_stack=1')
    try:
        r = subprocess.run([binary], input=text, capture_output=True, text=True, timeout=timeout, env=env)
    except subprocess.TimeoutExpired:
        raise Inconclusive('driver watchdog fired after %ds' % timeout)
    if sanitizer and (r.returncode == 66 or 'WARNING: ThreadSanitizer' in r.stderr):
        i = r.stderr.find('WARNING: ThreadSanitizer')
        raise SanitizerReport(r.stderr[max(0, i):i + 4000])
    if r.returncode != 0:
        raise Inconclusive('driver exited with %d: %s' % (r.returncode, r.stderr[-2000:]))
    return parse_log(r.stdout)


MIRI_FLAGS = ('-Zmiri-disable-isolation -Zmiri-permissive-provenance -Zmiri-tree-borrows '
              '-Zmiri-ignore-leaks -Zmiri-no-extra-rounding-error')


def run_miri(case_text, seeds=None, timeout=3600, tag='miri'):
    """Run the same driver under Miri on a (small) case file.  Returns (logs, report) where
    logs is a list of parsed logs (one per seed when many-seeds is used, else one) and
    report is None or the UB / data race report text."""
    os.makedirs(os.path.join(HARNESS, 'target', 'miri-cases'), exist_ok=True)
    path = os.path.join(HARNESS, 'target', 'miri-cases', '%s-%d.case' % (tag, os.getpid()))
    with open(path, 'w') as f:
        f.write(case_text)
    env = cargo_env()
    flags = MIRI_FLAGS
    if seeds is not None:
        flags += ' -Zmiri-many-seeds=%d..%d' % (seeds[0], seeds[1])
    env['MIRIFLAGS'] = flags
    # std instead of libm: libm's x86 sqrt is inline assembly, which Miri cannot interpret
    args = ['cargo', '+nightly', 'miri', 'run', '--no-default-features', '--features', 'std,rayon,serde',
            '--target-dir', 'target/miri', '--', path]
    try:
        r = subprocess.run(args, cwd=HARNESS, env=env, capture_output=True, text=True, timeout=timeout)
    except subprocess.TimeoutExpired:
        raise Inconclusive('miri watchdog fired after %ds' % timeout)
    finally:
        pass
    try:
        os.unlink(path)
    except OSError:
        pass
    err = r.stderr
    report = None
    if 'Undefined Behavior' in err or 'Data race detected' in err:
        i = err.find('error: Undefined Behavior')
        if i < 0:
            i = err.find('Data race detected')
        report = err[max(0, i - 200):i + 5000]
    elif 'error: unsupported operation' in err:
        i = err.find('error: unsupported operation')
        raise Inconclusive('Miri cannot interpret an operation the driver reached (tool limitation, not a finding): %s' % err[i:i + 600])
    elif r.returncode != 0:
        raise Inconclusive('miri run failed (exit %d): %s' % (r.returncode, err[-3000:]))
    # with many-seeds the outputs of all seeds are concatenated; split on repeated case ids
    logs = []
    cur = []
    seen = set()
    for line in r.stdout.split('\n'):
        if line.startswith('C '):
            if line in seen:
                logs.append('\n'.join(cur))
                cur = []
                seen = set()
            seen.add(line)
        cur.append(line)
    if cur:
        logs.append('\n'.join(cur))
    return [parse_log(t) for t in logs], report

# ------------------------------------------------------------------ results


class Result:
    """Accumulates what a shard (or a whole run) observed."""

    def __init__(self):
        self.counters = {}
        self.maxima = {}
        self.distinct = set()     # hashes of distinct non-trivial cases
        self.violations = []      # dicts
        self.samples = []
        self.inconclusive = []
        self.extra_sets = {}      # name -> set (e.g. distinct merge trees)

    def count(self, name, k=1):
        self.counters[name] = self.counters.get(name, 0) + k

    def maxi(self, name, v):
        if v > self.maxima.get(name, -1.0):
            self.maxima[name] = v

    def add_set(self, name, item):
        self.extra_sets.setdefault(name, set()).add(item)

    def violation(self, prop, signature, message, case=None, variant='release', detail=None):
        self.sigcount = getattr(self, 'sigcount', {})
        k = self.sigcount.get(signature, 0)
        self.sigcount[signature] = k + 1
        if k < 5 and len(self.violations) < 400:
            self.violations.append({'property': prop, 'signature': signature, 'message': message,
                                    'case': case.to_json() if case is not None else None,
                                    'variant': variant, 'detail': detail})
        self.count('violations_raw')

    def sample(self, obj, cap=4):
        if len(self.samples) < cap:
            self.samples.append(obj)

    def ensure_sample(self, case, note='first case of the shard (no case matched the preferred sampling filter)'):
        """Evidence must always show at least one actual case: fall back to this one."""
        if not self.samples and case is not None:
            self.samples.append({'type': case.type, 'program': [o[:160] for o in case.ops[:12]], 'note': note})

    def merge(self, other):
        for k, v in other.counters.items():
            self.counters[k] = self.counters.get(k, 0) + v
        for k, v in other.maxima.items():
            if v > self.maxima.get(k, -1.0):
                self.maxima[k] = v
        self.distinct |= other.distinct
        for k, s in other.extra_sets.items():
            self.extra_sets.setdefault(k, set()).update(s)
        self.sigcount = getattr(self, 'sigcount', {})
        for v in other.violations:
            k = self.sigcount.get(v['signature'], 0)
            self.sigcount[v['signature']] = k + 1
            if k < 5 and len(self.violations) < 1000:
                self.violations.append(v)
        for s in other.samples:
            if len(self.samples) < 6:
                self.samples.append(s)
        self.inconclusive.extend(other.inconclusive)


def _shard_entry(args):
    func, desc = args
    try:
        return func(desc)
    except Inconclusive as e:
        r = Result()
        r.inconclusive.append(str(e))
        return r
    except Exception:
        r = Result()
        r.inconclusive.append('monitor error in shard %r: %s' % (desc.get('name', '?') if isinstance(desc, dict) else desc,
                                                               traceback.format_exc()[-3000:]))
        return r


def run_shards(func, descs, procs=None):
    """Run func(desc) for every shard descriptor over a process pool, merge the Results."""
    total = Result()
    procs = procs or NPROC
    if len(descs) == 1 or procs == 1:
        for d in descs:
            total.merge(_shard_entry((func, d)))
        return total
    ctx = multiprocessing.get_context('fork')
    with ctx.Pool(min(procs, len(descs))) as pool:
        for r in pool.imap_unordered(_shard_entry, [(func, d) for d in descs]):
            total.merge(r)
    return total

# ------------------------------------------------------------------ known findings


def load_known_findings():
    """known_findings.txt lines:
         known: property=<id> signature=<sig> <what fails>
         fixed: property=<id> <commit> <what failed>
       Only `known:` lines suppress anything; the file is never written at run time."""
    known = []
    if os.path.exists(KNOWN_FINDINGS):
        for line in open(KNOWN_FINDINGS):
            line = line.strip()
            if line.startswith('known:'):
                parts = line.split()
                prop = sig = None
                for p in parts[1:]:
                    if p.startswith('property='):
                        prop = p[9:]
                    elif p.startswith('signature='):
                        sig = p[10:]
                what = line.split('signature=' + (sig or ''), 1)[-1].strip()
                known.append({'property': prop, 'signature': sig, 'what': what})
    return known

# ------------------------------------------------------------------ finishing a run


def write_replay(prop, v):
    os.makedirs(REPLAY_DIR, exist_ok=True)
    h = hashlib.blake2b(json.dumps(v, sort_keys=True, default=str).encode(), digest_size=6).hexdigest()
    path = os.path.join(REPLAY_DIR, '%s-%s.json' % (prop, h))
    with open(path, 'w') as f:
        json.dump(v, f, indent=1, default=str)
    return path


def finish(prop, tier, seed, res, rule, t0, assumptions, min_events=None, exhaustive=False, extra=None):
    """Write evidence, print the verdict, return the exit code (0 held / 1 violated /
    2 inconclusive)."""
    known = [k for k in load_known_findings() if k['property'] == prop]
    real, knownhits = [], {}
    for v in res.violations:
        hit = None
        for k in known:
            if k['signature'] == v['signature']:
                hit = k
                break
        if hit is not None:
            knownhits.setdefault(hit['signature'], [hit, 0])[1] += 1
        else:
            real.append(v)
    missing = []
    for name, need in (min_events or {}).items():
        got = res.counters.get(name, 0)
        if name in res.extra_sets:
            got = len(res.extra_sets[name])
        if got < need:
            missing.append('%s=%d (need >= %d)' % (name, got, need))

    coverage = {
        'evaluations': int(res.counters.get('evaluations', 0)),
        'distinct_nontrivial': len(res.distinct),
        'rule': rule,
        'samples': res.samples[:6],
        'counters': {k: int(v) for k, v in sorted(res.counters.items())},
        'worst_ratio': {k: float('%.4g' % v) for k, v in sorted(res.maxima.items())},
        'distinct_sets': {k: len(s) for k, s in sorted(res.extra_sets.items())},
        'required_events': min_events or {},
        'inconclusive': res.inconclusive[:10],
        'known_findings_hit': {sig: n for sig, (_, n) in knownhits.items()},
        'violation_samples': [{'signature': v['signature'], 'message': v['message']} for v in real[:10]],
        'rustc': rustc_version(),
        'legend': ('samples show case programs as fed to the driver (op codes: harness/src/main.rs header; every f64 is the 16-hex-digit '
                   'pattern of its bits) and observations as value[bits]; counters / distinct_sets / worst_ratio are measured by this run; '
                   'worst_ratio = max |error| / (n*kappa*2^-53*scale) over non-vacuous envelopes (bound = C times that, DESIGN.md section 2)'),
    }
    if not coverage['samples']:
        coverage['samples'] = [{'note': 'no individual case was recorded as a sample in this run; see counters for what was observed'}]
    if exhaustive:
        coverage['exhaustive'] = True
    if extra:
        coverage.update(extra)
    ev = {
        'property_id': prop, 'tier': tier, 'seed': int(seed), 'level': 'exploration',
        'coverage': coverage, 'assumptions': assumptions, 'wall_s': round(time.time() - t0, 2),
        'violations': len(real),
    }
    os.makedirs(EVIDENCE_DIR, exist_ok=True)
    tmp = os.path.join(EVIDENCE_DIR, '%s.json.tmp' % prop)
    with open(tmp, 'w') as f:
        json.dump(ev, f, indent=1, default=str)
    os.replace(tmp, os.path.join(EVIDENCE_DIR, '%s.json' % prop))

    for sig, (k, n) in knownhits.items():
        print('KNOWN-FINDING: property=%s %s (signature=%s, %d occurrence(s) this run)' % (prop, k['what'], sig, n))
    if real:
        seen = set()
        for v in real:
            if v['signature'] in seen:
                continue
            seen.add(v['signature'])
            path = write_replay(prop, v)
            print('VIOLATION property=%s replay=%s' % (prop, path))
            print('  signature=%s' % v['signature'])
            print('  %s' % v['message'])
            if len(seen) >= 8:
                break
        print('%s: VIOLATED (%d violating observations, %d distinct signatures shown)' % (prop, len(real), len(seen)))
        return 1
    if res.inconclusive or missing:
        for m in res.inconclusive[:5]:
            print('INCONCLUSIVE: %s' % m)
        for m in missing:
            print('INCONCLUSIVE: monitor observed too few events: %s' % m)
        return 2
    print('%s: held on everything observed: evaluations=%d distinct_nontrivial=%d wall=%.1fs' % (
        prop, coverage['evaluations'], coverage['distinct_nontrivial'], ev['wall_s']))
    return 0
