"""Huge sample sizes: shard shared by C01, C02, C03 (moment family).  Counts far beyond what text-encoded adds can reach
are produced by repeated self-merging (a.merge(&a.clone()) doubles the count) or, add-only, by the driver's AR op (cycling
through a few values billions of times).  The multiset is known exactly (value -> multiplicity), so the exact oracle
(exact.moments_weighted) still applies."""
import random

import common
from common import Case, Result, run_driver, val
import exact as ex
import momentcheck as mc

def shard(desc):
    """Sample sizes far beyond what adds can reach, produced by repeated self-merging (a.merge(&a.clone()) doubles the
    count): 2^16 .. 2^60 observations.  The multiset is known exactly (every base value occurs 2^k times), so the exact
    oracle still applies: len must be exact and every statistic inside the envelope; further merges between two huge
    operands with different means and further adds after the huge count are checked too."""
    rng = random.Random(desc['seed'])
    res = Result()
    variant = desc['variant']
    prop = desc['prop']
    only = desc.get('only') or {}
    cases, plan = [], []
    kk = 0
    for typ, ka, kb in desc['work']:
        ma, mb = rng.randint(1, 4), rng.randint(1, 3)
        if ka >= 61 or kb >= 61:
            ma = mb = 1          # 2^62 + 2^62 = 2^63 observations: the largest size that leaves room for further adds in a u64
        base_a = [float(rng.randint(-20, 20)) + rng.choice([0.0, 0.5, 0.25]) for _ in range(ma)]
        base_b = [float(rng.randint(30, 60)) + rng.choice([0.0, 0.5]) for _ in range(mb)]
        extras = [rng.choice([-1, 1]) * float(rng.randint(100, 400)), float(rng.randint(-5, 5)), 7.25]
        c = Case('%s-%d' % (desc['name'], kk), typ, meta={'ka': ka, 'kb': kb, 'base_a': base_a, 'base_b': base_b, 'extras': extras})
        kk += 1
        c.op('N', 0)
        c.op('A', 0, base_a)
        for _ in range(ka):
            c.op('M', 0, 0)
        m1 = c.op('O', 0)
        c.op('N', 1)
        c.op('A', 1, base_b)
        for _ in range(kb):
            c.op('M', 1, 1)
        orient = rng.randint(0, 1)
        if orient == 0:
            c.op('M', 0, 1)
            r = 0
        else:
            c.op('M', 1, 0)
            r = 1
        m2 = c.op('O', r)
        marks = [(m1, base_a, [2 ** ka] * ma), (m2, base_a + base_b, [2 ** ka] * ma + [2 ** kb] * mb)]
        vals, cnts = base_a + base_b, [2 ** ka] * ma + [2 ** kb] * mb
        for x in extras:
            c.op('A', r, [x])
            vals, cnts = vals + [x], cnts + [1]
            marks.append((c.op('O', r), list(vals), list(cnts)))
        cases.append(c)
        plan.append((c, typ, marks))
    for typ, count in desc.get('ar_work', []):
        # genuinely add-only: `count` adds cycling through a few values (driver op AR), then single adds
        cyc = [float(rng.randint(-9, 9)) + rng.choice([0.0, 0.5]) for _ in range(rng.choice([3, 5, 7]))]
        if len(set(cyc)) < 2:
            cyc[0] += 1.5
        extras = [rng.choice([-1, 1]) * float(rng.randint(100, 400)), 2.25]
        c = Case('%s-ar%d' % (desc['name'], kk), typ, meta={'ka': 0, 'kb': 0, 'base_a': cyc, 'base_b': [], 'extras': extras, 'add_only': count})
        kk += 1
        c.op('N', 0)
        c.op('AR', 0, count, cyc)
        marks = []
        q, rem = divmod(count, len(cyc))
        vals = list(cyc)
        cnts = [q + (1 if i < rem else 0) for i in range(len(cyc))]
        marks.append((c.op('O', 0), list(vals), list(cnts)))
        for x in extras:
            c.op('A', 0, [x])
            vals, cnts = vals + [x], cnts + [1]
            marks.append((c.op('O', 0), list(vals), list(cnts)))
        cases.append(c)
        plan.append((c, typ, marks))
        res.count('add_only_huge_runs')
    logs = run_driver(desc['binary'], ''.join(c.text() for c in cases), timeout=7200)
    for c, typ, marks in plan:
        recs = logs.get(c.id)
        if recs is None:
            res.inconclusive.append('case %s missing' % c.id)
            continue
        for r in recs:
            if r.kind in ('p', 'e', 'd'):
                res.violation(prop, '%s:%s' % (typ, 'panic' if r.kind == 'p' else 'harness'),
                              '%s with 2^%d / 2^%d-fold self-merged operands: op %d (%s) -> %s %s' % (
                                  typ, c.meta['ka'], c.meta['kb'], r.op, c.ops[r.op][:40], r.kind, r.rest), c, variant)
        by_op = {r.op: r for r in recs if r.kind == 'o'}
        for opi, vals, cnts in marks:
            r = by_op.get(opi)
            if r is None:
                continue
            # merge equal values
            agg = {}
            for v_, c_ in zip(vals, cnts):
                agg[v_] = agg.get(v_, 0) + c_
            vv = sorted(agg)
            mo = ex.moments_weighted(vv, [agg[v_] for v_ in vv], 10)
            nt = mc.judge(prop, typ, None, r.kv, res, c, variant, only=only.get(typ), mo=mo,
                          context='(sample size %d = self-merged 2^%d x %d values%s)' % (
                              mo.n, c.meta['ka'], len(c.meta['base_a']), ' merged with 2^%d x %d values' % (c.meta['kb'], len(c.meta['base_b'])) if opi != marks[0][0] else ''))
            res.count('bigcount_states')
            if mo.n > 2 ** 32:
                res.count('bigcount_states_above_2^32')
            if mo.n > 2 ** 53:
                res.count('bigcount_states_above_2^53')
            if mo.n >= 2 ** 63:
                res.count('bigcount_states_from_2^63')
            if nt:
                res.count('bigcount_nontrivial_states')
        res.count('histories')
        res.distinct.add(c.key())
    return res


