"""C15 - Quantile estimates stay inside the data range and bookkeeping is exact."""
import time

import common
from common import Result, build
import qrun
import c05

PROP = 'C15'
RULE = ('Invariant monitor after EVERY observation of the C05 workload (trie-exhaustive streams over {0,1}, {0,1,2} and {-1,0,1,5} x 7 p; '
        'random / sorted / reversed / zig-zag / trending / heavy-duplicate / two-value / constant / 1e30-magnitude / new-minimum-burst / '
        'signed-zero streams, p incl. 0 and 1): len() == observations so far; is_empty() <=> len()==0; p() bit-equal to the '
        'constructor argument; quantile() NaN iff empty, else min_seen <= quantile() <= max_seen; estimate() == quantile(); once five '
        'observations are in the serialised marker heights are non-decreasing with first == running minimum and last == running '
        'maximum. Quantile::new(p) must panic exactly for p outside [0,1] or NaN (15 boundary values). distinct_nontrivial = distinct '
        'streams (p, values) of length >= 5 checked.')
ASSUME = ['driver faithfully prints accessors and the serde-visible state', 'running min / max computed exactly by the monitor']


def shard_stream(desc):
    return qrun.stream_shard(desc)[1]


def shard_trie(desc):
    return qrun.trie_shard(desc)[1]


def shard_ultra(desc):
    return qrun.ultralong_shard(desc)[1]


WITNESSES = [
    # (p, stream): deterministic witnesses of the recorded known finding (range overflow: first and third stream) and the
    # regression case of the repaired small-sample midpoint (second stream; fix: 7b9ec69)
    (0.25, [1.7e308, -1.7e308, 1.7e308, -1.7e308, 1.7e308, -1.7e308, 1.7e308]),
    (0.5, [5e-324, 5e-324]),
    (0.25, [1e308, -1e308, 1e308, 1e308, -1e308, 0.0, -1.7e308]),    # the overflowed heights cancel to NaN at the 7th observation
]


def witness(binary, variant):
    from common import Case, run_driver
    J = qrun.Judge(variant)
    cases = []
    import itertools
    extra = []
    if variant == 'release':
        # every sequence of 2..4 observations over the smallest subnormals x the p values that select a midpoint: the
        # small-sample estimate must stay inside [min, max] (regression workload of fix: 7b9ec69)
        tiny = [5e-324, 1e-323, 1.5e-323, -5e-324, 0.0, 2.2250738585072014e-308]
        for n_ in (2, 3, 4):
            for seq in itertools.product(tiny, repeat=n_):
                for p_ in ((0.5,) if n_ == 2 else (1.0 / 3.0, 2.0 / 3.0) if n_ == 3 else (0.25, 0.5, 0.75)):
                    extra.append((p_, list(seq)))
    for i, (p, xs) in enumerate(WITNESSES + extra):
        c = Case('witness-%d' % i, 'Quantile', [p], meta={'kind': 'witness'})
        c.op('N', 0)
        marks = []
        for j, x in enumerate(xs, 1):
            c.op('A', 0, [x])
            marks.append((c.op('OS', 0), j))
        cases.append((c, p, xs, marks))
    logs = run_driver(binary, ''.join(c.text() for c, *_ in cases))
    for c, p, xs, marks in cases:
        qrun.judge_stream_case(J, c, p, xs, marks, 'witness', logs[c.id])
    J.r15.counters = {'witness_streams': len(WITNESSES), 'tiny_small_sample_streams': len(extra)}
    J.r15.distinct = set()
    J.r15.samples = []
    return J.r15


def run(tier, seed):
    t0 = time.time()
    total = Result()
    cfg = {}
    try:
        total, cfg = c05.run_workload(tier, seed, shard_stream, shard_trie, shard_ultra)
        for variant in ('release', 'dev'):
            total.merge(qrun.ctor_shard({'binary': build(variant), 'variant': variant}))
            total.merge(witness(build(variant), variant))
    except common.Inconclusive as e:
        total.inconclusive.append(str(e))
    need = {'invariant_states': 20000, 'state_wellformed_checks': 10000, 'constructor_checks': 30, 'streams_constant': 5,
            'streams_p_extreme': 20, 'streams_reversed': 5, 'streams_dups': 5}
    return common.finish(PROP, tier, seed, total, RULE, t0, ASSUME, min_events=need,
                         extra={'builds': [v for v, _ in cfg.get('variants', [])],
                                'trie_depth': {'{0,1}': cfg.get('d2'), '{0,1,2}': cfg.get('d3'), '{-1,0,1,5}': cfg.get('d4')}})


def rejudge(case, recs, res, variant, v):
    if case.id == 'ctor':
        res.merge(qrun.ctor_shard({'binary': build(variant), 'variant': variant}))
        return
    res.merge(qrun.rejudge_quantile(case, recs, variant).r15)
