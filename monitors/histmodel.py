"""Executable reference model of the histogram (macro and const-generic variants) and the
comparison of a driver observation record with the model state."""
import math
from fractions import Fraction

from common import PANIC, val, f2h, h2f, same_bits

U = Fraction(1, 2 ** 53)
NAN = float('nan')


def fdiv(a, b):
    """IEEE-754 division for python floats (python raises on x/0)."""
    if b == 0.0:
        if a != a or a == 0.0:
            return NAN
        neg = (math.copysign(1.0, a) < 0) != (math.copysign(1.0, b) < 0)
        return -math.inf if neg else math.inf
    return a / b


def fsub(a, b):
    return a - b    # inf - inf = nan in python as in IEEE


class Hist:
    def __init__(self, edges):
        self.edges = list(edges)
        self.bins = [0] * (len(edges) - 1)

    def clone(self):
        h = Hist(self.edges)
        h.bins = list(self.bins)
        return h

    @property
    def LEN(self):
        return len(self.bins)

    def find(self, x):
        """The unique half-open bin containing x, or None."""
        if x != x:
            return None
        e = self.edges
        if not (e[0] <= x < e[-1]):
            return None
        j = -1
        for i, v in enumerate(e):
            if v <= x:
                j = i
        return j

    def add(self, x):
        j = self.find(x)
        if j is None:
            return False
        self.bins[j] += 1
        return True

    def same_edges(self, other):
        return all(a == b for a, b in zip(self.edges, other.edges))

    def merge(self, other):
        """-> False if the operation must panic (edges differ); operands unchanged then."""
        if not self.same_edges(other):
            return False
        self.bins = [a + b for a, b in zip(self.bins, other.bins)]
        return True

    def mul(self, k):
        self.bins = [b * k for b in self.bins]

    def reset(self):
        self.bins = [0] * len(self.bins)


def from_ranges(values, LEN):
    """Model of from_ranges: -> ('ok', Hist) | ('err', name)"""
    first = values[:LEN + 1]
    for i, v in enumerate(first):
        if v != v:
            return ('err', 'NaN')
        if i > 0 and first[i - 1] > v:
            return ('err', 'NotSorted')
    if len(first) < LEN + 1:
        return ('err', 'NotEnoughRanges')
    return ('ok', Hist(first))


def compare_obs(kv, h, violations, check_views=True):
    """Compare one `o` record of a histogram with the model state h.  Appends
    (signature-suffix, message) to violations."""
    def bad(sig, msg):
        violations.append((sig, msg))

    L = h.LEN
    rt = kv['ranges']
    if rt == '!':
        bad('ranges:panic', 'ranges() panicked')
        return
    ranges = rt.split(',')
    if len(ranges) != L + 1 or any(not same_bits(a, f2h(b)) for a, b in zip(ranges, h.edges)):
        bad('ranges', 'ranges() = %s but the edges are %r' % ([h2f(t) for t in ranges], h.edges))
    bins = [int(t[1:]) for t in kv['bins'].split(',')] if kv['bins'] != '!' else None
    if bins != h.bins:
        bad('bins', 'bins() = %r but the model has %r' % (bins, h.bins))
    if not same_bits(kv['rmin'], f2h(h.edges[0])):
        bad('range_min', 'range_min() = %r, first edge %r' % (val(kv['rmin']), h.edges[0]))
    if not same_bits(kv['rmax'], f2h(h.edges[-1])):
        bad('range_max', 'range_max() = %r, last edge %r' % (val(kv['rmax']), h.edges[-1]))
    if not check_views:
        return
    for name in ('items', 'items2'):
        t = kv[name]
        if t == '!':
            bad('%s:panic' % name, 'iteration panicked')
            continue
        items = [] if t == '-' else t.split(',')
        if len(items) != L:
            bad('iter-length', 'iteration yields %d items, LEN = %d' % (len(items), L))
            continue
        for i, it in enumerate(items):
            lo, hi, c = it.split(':')
            if not same_bits(lo, f2h(h.edges[i])) or not same_bits(hi, f2h(h.edges[i + 1])) or int(c[1:]) != h.bins[i]:
                bad('iter-item', 'item %d = ((%r, %r), %s) but bin %d is ((%r, %r), %d)' % (
                    i, h2f(lo), h2f(hi), c[1:], i, h.edges[i], h.edges[i + 1], h.bins[i]))
                break
    # the same iterator driven through nth / skip / step_by instead of plain next(): item i must still be bin i
    t = kv.get('items_jump')
    if t is not None:
        if t == '!':
            bad('items_jump:panic', 'iteration through nth / skip / step_by panicked')
        else:
            toks = [] if t == '-' else t.split(',')
            walks, cur = [], []
            for it in toks:
                lo, hi, c = it.split(':')
                if c == 'u18446744073709551615' and h2f(lo) != h2f(lo):
                    walks.append(cur)
                    cur = []
                else:
                    cur.append((lo, hi, int(c[1:])))
            walks.append(cur)
            want_idx = [list(range(1, L)), list(range(2, L)), list(range(0, L, 2))]
            names = ['iter().nth(1) then next()...', 'iter().skip(2)', 'into_iter().step_by(2)']
            if len(walks) != 3:
                bad('iter-jump', 'malformed jump-iteration record (%d walks)' % len(walks))
            else:
                for w, idx, nm in zip(walks, want_idx, names):
                    got = [(h2f(lo), h2f(hi), c) for lo, hi, c in w]
                    okw = len(w) == len(idx) and all(
                        same_bits(lo, f2h(h.edges[i])) and same_bits(hi, f2h(h.edges[i + 1])) and c == h.bins[i]
                        for (lo, hi, c), i in zip(w, idx))
                    if not okw:
                        bad('iter-jump', '%s yields %r but the bins %r are %r' % (
                            nm, got, idx, [(h.edges[i], h.edges[i + 1], h.bins[i]) for i in idx]))
                        break
    N = sum(h.bins)

    def view(name, fn, sig):
        t = kv[name]
        if t == '!':
            bad('%s:panic' % sig, '%s panicked' % name)
            return None
        toks = t.split(',')
        if len(toks) != L:
            bad('%s:length' % sig, '%s yields %d values, LEN = %d' % (name, len(toks), L))
            return None
        for i, tok in enumerate(toks):
            want = fn(i)
            if tok == '!' or not same_bits(tok, f2h(want)):
                bad(sig, '%s[%d] = %s but a single correctly rounded IEEE operation on (%r, %r, count %d) gives %r' % (
                    name, i, 'PANIC' if tok == '!' else repr(h2f(tok)), h.edges[i], h.edges[i + 1], h.bins[i], want))
                return None
        return toks

    view('widths', lambda i: fsub(h.edges[i + 1], h.edges[i]), 'widths')
    view('centers', lambda i: 0.5 * (h.edges[i] + h.edges[i + 1]), 'centers')
    view('normalized', lambda i: fdiv(float(h.bins[i]), fsub(h.edges[i + 1], h.edges[i])), 'normalized_bins')
    # variances: exact c(1 - c/N) within 4u*max(c, N/4); variance(i) vs variances()[i] within 2 ulp; both NaN when empty
    tv, t1 = kv['variances'], kv['variance']
    if tv == '!' or '!' in t1.split(','):
        bad('variance:panic', 'variance()/variances() panicked')
        return
    vs = [h2f(t) for t in tv.split(',')]
    v1 = [h2f(t) for t in t1.split(',')]
    if len(vs) != L or len(v1) != L:
        bad('variances:length', 'variances yields %d values, LEN = %d' % (len(vs), L))
        return
    for i in range(L):
        c = h.bins[i]
        for name, v in (('variances', vs[i]), ('variance', v1[i])):
            if N == 0:
                if v == v:
                    bad('%s:empty' % name, '%s of an empty histogram = %r, expected NaN' % (name, v))
                continue
            if v != v or v in (math.inf, -math.inf):
                bad('%s:nonfinite' % name, '%s[%d] = %r for count %d of %d' % (name, i, v, c, N))
                continue
            exact = Fraction(c) * (1 - Fraction(c, N))
            if abs(Fraction(v) - exact) > 4 * U * max(Fraction(c), Fraction(N, 4)):
                bad(name, '%s[%d] = %r but c(1-c/N) = %r for c=%d, N=%d' % (name, i, v, float(exact), c, N))
        if N > 0 and vs[i] == vs[i] and v1[i] == v1[i]:
            if abs(vs[i] - v1[i]) > 2 * max(math.ulp(vs[i]), math.ulp(v1[i])):
                bad('variance-vs-variances', 'variance(%d) = %r but variances()[%d] = %r' % (i, v1[i], i, vs[i]))
