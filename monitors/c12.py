"""C12 - histogram construction accepts exactly the valid edge lists."""
import itertools
import math
import random
import time
from fractions import Fraction

import common
from common import Case, Result, build, run_driver, val, f2h, h2f, same_bits
import histmodel as hm

PROP = 'C12'
NAN = float('nan')
LATTICE = [-math.inf, -1.0, -0.0, 0.0, 0.5, 1.0, 2.0, math.inf, NAN]
RULE = ('from_ranges: for LEN in the exhaustive set, EVERY input list of length 0..LEN+3 (LEN<=2) / 0..LEN+2 (LEN=3) / as stated '
        'in coverage.exhaustive_lengths over the lattice {-inf,-1,-0.0,+0.0,0.5,1,2,+inf,NaN}; for LEN 10/100 random valid lists '
        'with a planted NaN / descent at a random position, truncations and extensions. Model: scan the first LEN+1 items; first '
        'NaN -> NaN; first descent -> NotSorted; too short -> NotEnoughRanges; else Ok with ranges() bit-equal to the prefix and all '
        'bins zero; a tenth of the inputs are also presented as the head of an UNBOUNDED iterator (must return, polling at most LEN+2 items). with_const_width(a,b): finite a<b over 30 orders of magnitude incl. b=nextafter(a), a=-b, integers: edge_0 == a '
        'exactly, edges non-decreasing, |edge_i - (a+i(b-a)/LEN)| <= 8 ulp(max|a|,|b|) in exact arithmetic, all bins zero. Macro '
        'histograms (stable) and histogram_const (nightly). distinct_nontrivial = distinct (type, input) constructions checked.')
ASSUME = ['driver faithfully prints construction results', 'model: histmodel.from_ranges (8 lines)']


def from_ranges_batch(cid, typ, lists):
    c = Case(cid, typ)
    marks = []
    for lst in lists:
        a = c.op('HR', 0, lst)
        b = c.op('O', 0)
        marks.append((a, b, lst))
    return c, marks


def filtered_batch(cid, typ, lists):
    """from_ranges fed through Iterator::filter: same items, but size_hint() has lower bound 0 and no exact length."""
    c = Case(cid, typ, meta={'filtered': True})
    marks = []
    for lst in lists:
        a = c.op('HRF', 0, lst)
        b = c.op('O', 0)
        marks.append((a, b, lst))
    return c, marks


def unbounded_batch(cid, typ, lists):
    """from_ranges fed by an unbounded iterator (the list followed by +inf forever): must return, must not read more than
    LEN+2 items, and must give the verdict of the list's first LEN+1 items (the +inf tail only matters for short lists)."""
    c = Case(cid, typ, meta={'unbounded': True})
    marks = []
    for lst in lists:
        a = c.op('HRI', 0, lst)
        b = c.op('O', 0)
        marks.append((a, b, lst))
    return c, marks


def judge_batch(c, typ, L, marks, recs, res, variant):
    fam = 'histogram_const' if typ.startswith('C') else 'Histogram'
    by_op = {}
    for r in recs:
        by_op.setdefault(r.op, []).append(r)
    for a, b, lst in marks:
        res.count('evaluations')
        res.count('from_ranges_calls')
        unbounded = bool(c.meta.get('unbounded'))
        res.distinct.add(hash((typ, unbounded, tuple(f2h(x) for x in lst))))
        want = hm.from_ranges(list(lst) + ([math.inf] * (L + 2) if unbounded else []), L)
        rr = by_op.get(a, [])
        if not rr:
            res.violation(PROP, '%s:harness' % fam, 'no record for from_ranges(%r)' % lst, c, variant)
            continue
        r = rr[0]
        if r.kind == 'p':
            sig = 'reads-unbounded-input' if 'keeps reading an unbounded input' in r.rest else 'panic'
            res.violation(PROP, '%s:from_ranges:%s' % (fam, sig), '%s::from_ranges(%r%s) panicked: %s' % (
                typ, lst, ' followed by an endless tail' if c.meta.get('unbounded') else '', r.rest), c, variant)
            continue
        got = r.rest.split()
        if unbounded:
            res.count('unbounded_input_calls')
            polls = [int(t[6:]) for t in got if t.startswith('polls=')]
            got = [t for t in got if not t.startswith('polls=')]
            if polls and polls[0] > L + 2:
                res.violation(PROP, '%s:from_ranges:reads-beyond-needed' % fam,
                              '%s::from_ranges polled %d items of an unbounded input; only the first LEN+1 = %d matter' % (typ, polls[0], L + 1), c, variant)
        if want[0] == 'err':
            res.count('expected_%s' % want[1])
            if got[0] != 'err' or got[1] != want[1]:
                res.violation(PROP, '%s:from_ranges:%s' % (fam, 'accepts-invalid' if got[0] == 'ok' else 'wrong-error'),
                              '%s::from_ranges(%r) -> %s, expected Err(%s)' % (typ, lst, ' '.join(got), want[1]), c, variant)
            continue
        res.count('expected_ok')
        if got[0] != 'ok':
            res.violation(PROP, '%s:from_ranges:rejects-valid' % fam,
                          '%s::from_ranges(%r) -> %s, expected Ok' % (typ, lst, ' '.join(got)), c, variant)
            continue
        o = [x for x in by_op.get(b, []) if x.kind == 'o']
        if not o:
            res.violation(PROP, '%s:harness' % fam, 'no observation after from_ranges', c, variant)
            continue
        v = []
        hm.compare_obs(o[0].kv, want[1], v, check_views=False)
        for sig, msg in v:
            res.violation(PROP, '%s:from_ranges:%s' % (fam, sig), '%s::from_ranges(%r): %s' % (typ, lst, msg), c, variant)


def shard_lists(desc):
    res = Result()
    cases, plan = [], []
    k = 0
    for item in desc['work']:
        if item[0] == 'enum':
            # enumerate this shard's slice of the exhaustive space lazily (LEN=4 has 5.4e6 lists)
            _, typ, L, maxlen, sidx, nsh = item
            lists = []
            cnt = 0
            for n in range(0, maxlen + 1):
                for t in itertools.product(LATTICE, repeat=n):
                    if cnt % nsh == sidx:
                        lists.append(list(t))
                    cnt += 1
        else:
            typ, L, lists = item
        for i in range(0, len(lists), 200):
            c, marks = from_ranges_batch('%s-%d' % (desc['name'], k), typ, lists[i:i + 200])
            k += 1
            cases.append(c)
            plan.append((c, typ, L, marks))
        # a tenth of the lists again through a filter iterator (inexact size_hint)
        fl = lists[5::10]
        for i in range(0, len(fl), 200):
            c, marks = filtered_batch('%s-f%d' % (desc['name'], k), typ, fl[i:i + 200])
            k += 1
            cases.append(c)
            plan.append((c, typ, L, marks))
            res.count('filtered_iterator_calls', len(marks))
        # a tenth of the lists again, as the head of an unbounded iterator
        ul = lists[::10]
        for i in range(0, len(ul), 200):
            c, marks = unbounded_batch('%s-u%d' % (desc['name'], k), typ, ul[i:i + 200])
            k += 1
            cases.append(c)
            plan.append((c, typ, L, marks))
    logs = run_driver(desc['binary'], ''.join(c.text() for c in cases))
    for c, typ, L, marks in plan:
        recs = logs.get(c.id)
        if recs is None:
            res.inconclusive.append('case %s missing' % c.id)
            continue
        judge_batch(c, typ, L, marks, recs, res, desc['variant'])
        if len(res.samples) < 1:
            res.sample({'type': typ, 'program': c.ops[:8], 'records': [r.brief()[:160] for r in recs[:8]]})
    return res


def random_lists(rng, L, n):
    out = []
    for _ in range(n):
        base = sorted(rng.choice([rng.uniform(-100, 100), float(rng.randint(-5, 5)), -math.inf, math.inf, 0.0, -0.0])
                      for _ in range(L + 1 + rng.randint(0, 3)))
        kind = rng.choice(['valid', 'valid', 'nan', 'descent', 'short', 'nan_and_descent', 'defect_after_prefix'])
        lst = list(base)
        if kind == 'nan':
            lst[rng.randrange(len(lst))] = NAN
        elif kind == 'descent':
            i = rng.randrange(1, len(lst))
            lst[i] = math.nextafter(lst[i - 1], -math.inf) if abs(lst[i - 1]) != math.inf else (-1e300 if lst[i - 1] > 0 else lst[i])
        elif kind == 'short':
            lst = lst[:rng.randint(0, L)]
            if lst and rng.random() < 0.3:
                lst[rng.randrange(len(lst))] = NAN
        elif kind == 'nan_and_descent':
            i, j = rng.randrange(len(lst)), rng.randrange(1, len(lst))
            lst[j] = -1e300
            lst[i] = NAN
        elif kind == 'defect_after_prefix':
            lst = lst[:L + 1] + [rng.choice([NAN, -math.inf, -1e300])] + [rng.uniform(-1, 1)]
        out.append(lst)
    return out


def const_width_pairs(rng, n):
    out = []
    for _ in range(n):
        kind = rng.choice(['random', 'random', 'adjacent', 'few_ulps', 'few_ulps', 'symmetric', 'integers', 'tiny_width', 'wide', 'near_grid'])
        mag = 10.0 ** rng.uniform(-15, 15)
        if kind == 'random':
            a = rng.choice([-1, 1]) * mag * rng.uniform(0.1, 1)
            b = a + 10.0 ** rng.uniform(-15, 15)
        elif kind == 'adjacent':
            a = rng.choice([-1, 1]) * mag
            b = math.nextafter(a, math.inf)
            if rng.random() < 0.5:
                b = math.nextafter(b, math.inf)
        elif kind == 'few_ulps':
            # end = start + k ulps, k up to a few hundred: neighbouring edges are 0..a few ulps apart
            a = rng.choice([-1, 1]) * mag * rng.uniform(0.1, 1)
            b = a
            for _ in range(rng.randint(1, 400)):
                b = math.nextafter(b, math.inf)
        elif kind == 'symmetric':
            b = mag
            a = -b
        elif kind == 'integers':
            a = float(rng.randint(-1000, 1000))
            b = a + float(rng.randint(1, 1000))
        elif kind == 'near_grid':
            # start < 0 < end with -start/step within 1e-13 of a whole number without being one: an inner edge is almost 0
            L_ = rng.choice([3, 4, 10, 100])
            k_ = rng.randint(1, L_ - 1)
            b = mag
            a = -b * k_ / (L_ - k_) * (1 + rng.choice([-1, 1]) * 10.0 ** rng.uniform(-15, -12))
        elif kind == 'tiny_width':
            a = rng.choice([-1, 1]) * mag
            b = a + abs(a) * 10.0 ** rng.uniform(-15, -10)
        else:
            a = -mag * rng.uniform(0, 1)
            b = mag
        if a < b and abs(a) < 1e16 and abs(b) < 1e16:
            out.append((a, b))
    return out


def check_width(res, c, typ, fam, L, a, b, kv, variant):
    edges = [h2f(t) for t in kv['ranges'].split(',')]
    bins = [int(t[1:]) for t in kv['bins'].split(',')]

    def viol(sig, msg):
        res.violation(PROP, '%s:with_const_width:%s' % (fam, sig), '%s::with_const_width(%r, %r): %s' % (typ, a, b, msg), c, variant)
    if len(edges) != L + 1 or len(bins) != L:
        viol('shape', '%d edges, %d bins' % (len(edges), len(bins)))
        return
    if any(bins):
        viol('bins', 'bins not zero: %r' % bins)
    if f2h(edges[0]) != f2h(a):
        viol('first-edge', 'first edge %r is not exactly start' % edges[0])
    if any(not (edges[i] <= edges[i + 1]) for i in range(L)):
        viol('not-monotone', 'edges are not non-decreasing: %r' % edges[:6])
    tol = 8 * Fraction(math.ulp(max(abs(a), abs(b))))
    fa, fb = Fraction(a), Fraction(b)
    worst = 0.0
    for i, e in enumerate(edges):
        if e != e or abs(e) == math.inf:
            viol('nonfinite-edge', 'edge %d = %r' % (i, e))
            break
        d = abs(Fraction(e) - (fa + i * (fb - fa) / L))
        worst = max(worst, float(d / Fraction(math.ulp(max(abs(a), abs(b))))))
        if d > tol:
            viol('edge-error', 'edge %d = %r deviates from start+i*(end-start)/LEN by %.3g ulp' % (
                i, e, float(d / Fraction(math.ulp(max(abs(a), abs(b)))))))
            break
    res.maxi('edge_error_ulps', worst)


def shard_width(desc):
    res = Result()
    variant = desc['variant']
    cases, plan = [], []
    k = 0
    for typ, L, prs in desc['work']:
        for i in range(0, len(prs), 100):
            c = Case('%s-%d' % (desc['name'], k), typ)
            k += 1
            marks = []
            for a, b in prs[i:i + 100]:
                c.op('HW', 0, [a, b])
                marks.append((c.op('O', 0), a, b))
            cases.append(c)
            plan.append((c, typ, L, marks))
    logs = run_driver(desc['binary'], ''.join(c.text() for c in cases))
    for c, typ, L, marks in plan:
        fam = 'histogram_const' if typ.startswith('C') else 'Histogram'
        recs = logs.get(c.id)
        if recs is None:
            res.inconclusive.append('case %s missing' % c.id)
            continue
        for r in recs:
            if r.kind in ('p', 'e'):
                res.violation(PROP, '%s:with_const_width:panic' % fam, '%s: op %d (%s) -> %s' % (typ, r.op, c.ops[r.op], r.rest), c, variant)
        by_op = {r.op: r for r in recs if r.kind == 'o'}
        for opi, a, b in marks:
            r = by_op.get(opi)
            if r is None:
                continue
            res.count('evaluations')
            res.count('const_width_calls')
            res.distinct.add(hash((typ, f2h(a), f2h(b))))
            check_width(res, c, typ, fam, L, a, b, r.kv, variant)
    return res


def run(tier, seed):
    t0 = time.time()
    total = Result()
    rng = random.Random(seed)
    if tier == 'quick':
        exh = {1: 4, 2: 5, 3: 5}      # LEN -> max list length enumerated
        nrand, nwidth, variants = 1500, 3000, [('release', 1.0), ('dev', 0.5), ('nightly', 0.5), ('plain', 0.3), ('bare', 0.3)]
    else:
        exh = {1: 4, 2: 5, 3: 6, 4: 7}
        nrand, nwidth, variants = 60000, 200000, [('release', 1.0), ('dev', 0.3), ('nightly', 0.3), ('plain', 0.2), ('bare', 0.2)]
    try:
        for variant, frac in variants:
            binary = build(variant)
            prefix = 'CH' if variant == 'nightly' else 'H'
            nsh = common.NPROC * (4 if tier == 'thorough' else 1)
            work = [[] for _ in range(nsh)]
            for L, maxlen in exh.items():
                if frac < 1.0 and L == max(exh):
                    maxlen -= 1
                for s in range(nsh):
                    work[s].append(('enum', '%s%d' % (prefix, L), L, maxlen, s, nsh))
            for L in (10, 15, 64, 100, 127):
                lists = random_lists(rng, L, int(nrand * frac * 0.5))
                for s in range(nsh):
                    work[s].append(('%s%d' % (prefix, L), L, lists[s::nsh]))
            descs = [{'name': 'l%s%d' % (variant[0], s), 'variant': variant, 'binary': binary, 'work': work[s]} for s in range(nsh)]
            total.merge(common.run_shards(shard_lists, descs))
            work = [[] for _ in range(nsh)]
            for L in (1, 3, 7, 10, 16, 33, 100, 127):
                prs = const_width_pairs(rng, int(nwidth * frac / 8))
                for s in range(nsh):
                    work[s].append(('%s%d' % (prefix, L), L, prs[s::nsh]))
            descs = [{'name': 'w%s%d' % (variant[0], s), 'variant': variant, 'binary': binary, 'work': work[s]} for s in range(nsh)]
            total.merge(common.run_shards(shard_width, descs))
    except common.Inconclusive as e:
        total.inconclusive.append(str(e))
    need = {'expected_ok': 1000, 'expected_NaN': 1000, 'expected_NotSorted': 1000, 'expected_NotEnoughRanges': 500,
            'const_width_calls': 1000, 'unbounded_input_calls': 1000, 'filtered_iterator_calls': 1000}
    return common.finish(PROP, tier, seed, total, RULE, t0, ASSUME, min_events=need, exhaustive=True,
                         extra={'builds': [v for v, _ in variants], 'exhaustive_lengths': {str(k): v for k, v in exh.items()}})


def rejudge(case, recs, res, variant, v):
    typ = case.type
    L = int(typ.lstrip('CH'))
    fam = 'histogram_const' if typ.startswith('C') else 'Histogram'
    marks, wmarks = [], []
    for i, o in enumerate(case.ops):
        t = o.split()
        if t[0] in ('HR', 'HRI', 'HRF'):
            marks.append((i, i + 1, [h2f(x) for x in t[2:]]))
        elif t[0] == 'HW':
            wmarks.append((i + 1, h2f(t[2]), h2f(t[3])))
    if marks:
        judge_batch(case, typ, L, marks, recs, res, variant)
    by_op = {r.op: r for r in recs if r.kind == 'o'}
    for opi, a, b in wmarks:
        if opi in by_op:
            res.count('evaluations')
            check_width(res, case, typ, fam, L, a, b, by_op[opi].kv, variant)
