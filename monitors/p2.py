"""Reference model of the P-square algorithm (Jain & Chlamtac, CACM 1985, box B), transcribed
from the paper with 1-based marker indices mapped to 0..4, in Python floats (IEEE binary64,
round-to-nearest-even, no fused operations - the same arithmetic the implementation has)."""
import math
from fractions import Fraction

NEAR = 1e-9


class State:
    __slots__ = ('q', 'n', 'm', 'dm')

    def __init__(self, q, n, m, dm):
        self.q, self.n, self.m, self.dm = list(q), list(n), list(m), list(dm)

    def copy(self):
        return State(self.q, self.n, self.m, self.dm)

    def __repr__(self):
        return 'q=%r n=%r m=%r' % (self.q, self.n, self.m)


def init_state(p, first5):
    """State after the first five observations (paper, box B, part A)."""
    q = sorted(first5)
    return State(q, [1, 2, 3, 4, 5], [1.0, 1.0 + 2.0 * p, 1.0 + 4.0 * p, 3.0 + 2.0 * p, 5.0],
                 [0.0, p / 2.0, p, (1.0 + p) / 2.0, 1.0])


def _div(a, b):
    """IEEE division (python raises on division by zero; a malformed state handed to the model - e.g. two
    markers at the same position - must not crash the monitor)."""
    if b == 0:
        if a != a or a == 0:
            return float('nan')
        return math.copysign(math.inf, a) * (1.0 if math.copysign(1.0, b) > 0 else -1.0)
    return a / b


def parabolic(q, n, i, d):
    return q[i] + _div(d, n[i + 1] - n[i - 1]) * (
        _div((n[i] - n[i - 1] + d) * (q[i + 1] - q[i]), n[i + 1] - n[i])
        + _div((n[i + 1] - n[i] - d) * (q[i] - q[i - 1]), n[i] - n[i - 1]))


def linear(q, n, i, d):
    j = i + int(d)
    return q[i] + _div(d * (q[j] - q[i]), n[j] - n[i])


def step(S, x, events=None):
    """One P-square step (box B, part B).  Returns a list of acceptable successor states:
    normally one; more when a decision predicate is within NEAR of its boundary (then both
    outcomes are accepted).  `events` (a dict) receives counts of the branches taken."""
    def ev(name):
        if events is not None:
            events[name] = events.get(name, 0) + 1

    q, n = list(S.q), list(S.n)
    # B.1 find cell k, adjust extreme values
    if x < q[0]:
        q[0] = x
        k = 0
        ev('new_min')
    elif x < q[1]:
        k = 0
    elif x < q[2]:
        k = 1
    elif x < q[3]:
        k = 2
    elif x <= q[4]:
        k = 3
    else:
        q[4] = x
        k = 3
        ev('new_max')
    # B.2 increment positions of markers k+1..4 (0-based: the markers above the cell)
    for i in range(k + 1, 5):
        n[i] += 1
    m = [S.m[i] + S.dm[i] for i in range(5)]
    states = [State(q, n, m, S.dm)]
    # B.3 adjust heights of markers 1..3 if necessary
    for i in (1, 2, 3):
        nxt = []
        for T in states:
            d = T.m[i] - T.n[i]
            outs = []
            move_up = d >= 1 and T.n[i + 1] - T.n[i] > 1
            move_dn = d <= -1 and T.n[i - 1] - T.n[i] < -1
            near = (abs(abs(d) - 1.0) < NEAR)
            options = []
            if move_up or move_dn:
                options.append(1.0 if d >= 0 else -1.0)
                if near:
                    options.append(None)
            else:
                options.append(None)
                if near and ((d > 0 and T.n[i + 1] - T.n[i] > 1) or (d < 0 and T.n[i - 1] - T.n[i] < -1)):
                    options.append(1.0 if d > 0 else -1.0)
            for dd in options:
                if dd is None:
                    outs.append(T)
                    continue
                qp = parabolic(T.q, T.n, i, dd)
                lo, hi = T.q[i - 1], T.q[i + 1]
                inside = lo < qp < hi
                span = max(abs(lo), abs(hi), abs(qp))
                near_q = abs(qp - lo) <= NEAR * span or abs(qp - hi) <= NEAR * span
                cands = []
                if inside:
                    cands.append(('parabolic', qp))
                    if near_q:
                        cands.append(('linear', linear(T.q, T.n, i, dd)))
                else:
                    cands.append(('linear', linear(T.q, T.n, i, dd)))
                    if near_q:
                        cands.append(('parabolic', qp))
                for which, val in cands:
                    U = T.copy()
                    U.q[i] = val
                    U.n[i] += int(dd)
                    outs.append(U)
                if len(options) == 1 and len(cands) == 1:
                    ev(cands[0][0])
                    ev('move_up' if dd > 0 else 'move_down')
                    if events is not None:
                        events.setdefault('moved_markers', []).append(i)
            nxt.extend(outs)
        states = nxt
        if len(states) > 16:
            states = states[:16]
    if len(states) > 1:
        ev('near_tie_step')
    return states


def run_reference(p, xs):
    """From-scratch reference run: yields (j, state or None, near_tie_seen) after each
    observation j >= 5 (deterministic branch only)."""
    S = None
    near = False
    buf = []
    out = []
    for j, x in enumerate(xs, 1):
        if j < 5:
            buf.append(x)
            out.append(None)
            continue
        if j == 5:
            buf.append(x)
            S = init_state(p, buf)
        else:
            ss = step(S, x)
            if len(ss) > 1:
                near = True
            S = ss[0]
        out.append((S.copy(), near))
    return out


def exact_small_quantile(p, xs):
    """C07 model: exact sample quantile of 1..4 observations.  Returns (values, midpoints):
    the observed value is acceptable iff it equals one of `values` (floats, compared with ==)
    or lies within one ulp of one of `midpoints` (exact Fractions).  Normally there is exactly
    one acceptable answer; when n*p is within 4*n*u of an integer k, any of s[k-1], the
    midpoint, s[k] is acceptable (the statement's "either convention")."""
    n = len(xs)
    s = sorted(xs)
    P = Fraction(p)
    t = n * P
    tol = Fraction(4 * n, 2 ** 53)
    values, mids = set(), []

    def at_integer(k):
        # n*p == k exactly: order statistic k (1-based), averaged with the next when it exists
        if k <= 0:
            values.add(s[0])
        elif k - 1 < n - 1:
            mids.append((Fraction(s[k - 1]) + Fraction(s[k])) / 2)
        else:
            values.add(s[n - 1])

    def generic(tt):
        idx = math.ceil(tt - 1)
        idx = min(max(idx, 0), n - 1)
        values.add(s[idx])

    k = round(t)
    if t == k:
        at_integer(int(k))
    else:
        generic(t)
        if abs(t - k) <= tol:
            k = int(k)
            at_integer(k)
            if 1 <= k <= n:
                values.add(s[k - 1])
            if 0 <= k <= n - 1:
                values.add(s[k])
    return values, mids


def small_quantile_ok(obs, values, mids):
    if obs != obs:
        return False
    if obs in (math.inf, -math.inf):
        return any(obs == v for v in values)
    if any(obs == v for v in values):
        return True
    for m in mids:
        if m == 0:
            if obs == 0.0:
                return True
            continue
        mf = float(m)
        if abs(Fraction(obs) - m) <= Fraction(math.ulp(mf)):
            return True
    return False


def mirror_exact(p, xs):
    """Is the P-square run on xs exactly mirror-symmetric, i.e. must Q_p(x) == -Q_(1-p)(-x)
    hold?  The paper adjusts markers 2,3,4 in that order, each reading its neighbours'
    current values and positions, so the algorithm itself is NOT mirror-symmetric in general:
    a marker that could not move because its neighbour had not moved yet can move in the
    mirrored run.  The runs are exact mirror images as long as, in every step, both runs move
    mirror-image sets of markers, no two adjacent markers move, no observation equals a
    marker height (the cell search is half-open) and no decision is a near-tie."""
    if len(xs) < 5:
        return True
    A = init_state(p, xs[:5])
    B = init_state(1.0 - p, [-x for x in xs[:5]])
    for x in xs[5:]:
        if any(x == v for v in A.q) or any(-x == v for v in B.q):
            return False
        ea, eb = {}, {}
        sa, sb = step(A, x, ea), step(B, -x, eb)
        if len(sa) > 1 or len(sb) > 1:
            return False
        ma, mb = ea.get('moved_markers', []), eb.get('moved_markers', [])
        if sorted(4 - i for i in mb) != sorted(ma):
            return False
        if any(b - a == 1 for a, b in zip(ma, ma[1:])):
            return False
        A, B = sa[0], sb[0]
    return True
