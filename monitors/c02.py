"""C02 - merge is equivalent to having seen the concatenated data (moment family)."""
import random
import time

import common
from common import Case, Result, build, run_driver, val
import exact as ex
import gen
import momentcheck as mc

PROP = 'C02'
TYPES = ['Mean', 'Variance', 'Skewness', 'Kurtosis', 'Moments4', 'M5', 'M6', 'M7', 'M8', 'M9', 'M10']
RULE = ('A merge history = (composition of a sequence into k contiguous, possibly empty chunks) x (binary tree over the '
        'chunks) x (orientation l.merge(&r) / r.merge(&l) at each node). Exhaustive core: every history with k<=Kmax over '
        'short sequences (well-conditioned, offset 1e9, ties); sampled: random k<=12 with balanced / comb / one-vs-rest / '
        'singleton / mostly-empty profiles over section-3.1 sequences up to kappa=1e12. Every internal node and the root '
        'are observed; len must be exact and every statistic within the section-2 envelope of the exact statistics of the '
        'node\'s sub-multiset. Types: Mean, Variance, Skewness, Kurtosis, Moments4, define_moments! orders 5,6,8,10. '
        'distinct_nontrivial = distinct (type, program) histories with >=2 non-empty chunks whose root state was '
        'non-trivial (sigma>0, inside guard, envelope<=1e-3). Added: lopsided merges (one chunk >1024x, >4096x and >65536x '
        'larger than the other, both operand orders) and sample sizes of 2^16..2^60 reached by repeated self-merging (the '
        'multiset is known exactly), incl. merges of two huge operands with different means and adds after the huge count.')
ASSUME = ['CPython int/Fraction arithmetic is exact; sqrt via isqrt to 2^-200', 'driver faithfully prints accessor bit patterns',
          'envelope constants of DESIGN.md section 2 (calibrated, fixed)']

ONLY = {}
for _t in TYPES:
    if _t in mc.MOMENT_TYPES:
        N = mc.ORDER[_t]
        ONLY[_t] = ['mean'] + ['cm%d' % p for p in range(N + 1)] + ['sm%d' % p for p in range(N + 1)] + ['sample_variance']
    else:
        ONLY[_t] = None


class SeqOracle:
    """Exact moments of every contiguous span of a sequence (by item index), cached."""

    def __init__(self, xs):
        self.xs = xs
        self.X, self.D = ex.scale_ints(xs) if xs else ([], 1)
        self.cache = {}

    def span(self, lo, hi):
        k = (lo, hi)
        mo = self.cache.get(k)
        if mo is None and hi > lo:
            mo = ex.moments_from_ints(self.X[lo:hi], self.D, 10)
            self.cache[k] = mo
        return mo


def build_history_case(cid, typ, xs, sizes, tree, leaf_how='add'):
    chunks = gen.chunks_of(xs, sizes)
    c = Case(cid, typ, meta={'sizes': list(sizes), 'tree': gen.tree_signature(tree)})
    tc = gen.TreeCompiler(c, chunks, observe_nodes=True)
    if isinstance(tree, int):
        r, span = tc._leaf(tree)[:2]
        k = c.op('O', r)
        tc.obs.append((k, span, 'node'))
    else:
        tc.build(tree)
    return c, tc


def judge_history(typ, c, tc, recs, oracle, sizes, res, variant, memo):
    by_op = {r.op: r for r in recs if r.kind == 'o'}
    for r in recs:
        if r.kind in ('p', 'e', 'd'):
            res.violation(PROP, '%s:%s' % (typ, 'panic' if r.kind == 'p' else 'harness'),
                          '%s: op %d (%s) -> %s %s' % (typ, r.op, c.ops[r.op][:60], r.kind, r.rest), c, variant)
    offs = [0]
    for s in sizes:
        offs.append(offs[-1] + s)
    root_nt = False
    for i, (opi, (clo, chi), kind) in enumerate(tc.obs):
        r = by_op.get(opi)
        if r is None:
            res.violation(PROP, '%s:missing-observation' % typ, '%s: no observation for op %d' % (typ, opi), c, variant)
            continue
        lo, hi = offs[clo], offs[chi]
        xs = oracle.xs[lo:hi]
        mo = oracle.span(lo, hi)
        nt = mc.judge(PROP, typ, xs, r.kv, res, c, variant, only=ONLY[typ], mo=mo,
                      context='at merge node over items %d..%d (chunks %s, tree %s)' % (lo, hi, list(sizes), c.meta['tree']),
                      memo=memo, memo_key=(id(oracle), lo, hi))
        if i == len(tc.obs) - 1:
            root_nt = nt
    for a, b in tc.merges:
        res.count('merges')
        if a == 0:
            res.count('merge_into_empty')
        if b == 0:
            res.count('merge_of_empty')
        if a == 1 or b == 1:
            res.count('merge_singleton')
        if a > 0 and b > 0 and (a >= 4 * b or b >= 4 * a):
            res.count('merge_unbalanced_4x')
    return root_nt


def core_sequences():
    return [
        ('wellcond', [0.3, -1.7, 2.9, 0.8, -0.45]),
        ('offset1e9', [1e9 + 0.25, 1e9 + 3.5, 1e9 - 2.125, 1e9 + 7.0, 1e9 + 0.375]),
        ('ties', [2.0, 2.0, -1.0, 2.0, -1.0]),
    ]


def shard_core(desc):
    res = Result()
    variant = desc['variant']
    cases, plan = [], []
    memo = {}
    oracles = {}
    cid = 0
    for (sname, full, n, k, typ) in desc['work']:
        xs = full[:n]
        okey = (sname, n)
        if okey not in oracles:
            oracles[okey] = SeqOracle(xs)
        oracle = oracles[okey]
        for sizes in gen.compositions(n, k):
            for shape in gen.tree_shapes(0, k):
                for tree in gen.orientations(shape):
                    c, tc = build_history_case('%s-%d' % (desc['name'], cid), typ, xs, sizes, tree)
                    cid += 1
                    cases.append(c)
                    plan.append((c, tc, oracle, sizes, typ))
    logs = run_driver(desc['binary'], ''.join(c.text() for c in cases))
    for c, tc, oracle, sizes, typ in plan:
        recs = logs.get(c.id)
        if recs is None:
            res.inconclusive.append('case %s missing' % c.id)
            continue
        nt = judge_history(typ, c, tc, recs, oracle, sizes, res, variant, memo)
        res.count('histories')
        res.count('core_histories')
        if nt and sum(1 for s in sizes if s) >= 2:
            res.distinct.add(c.key())
            res.count('nontrivial_histories')
        res.add_set('history_shapes', (tuple(sizes), c.meta['tree']))
    return res


def shard_sampled(desc):
    rng = random.Random(desc['seed'])
    res = Result()
    variant = desc['variant']
    cases, plan = [], []
    memo = {}
    cid = 0
    for i in range(desc['nseq']):
        r = rng.random()
        if r < 0.6:
            n = rng.randint(2, 14)
        elif r < 0.97:
            n = rng.randint(14, 200)
        else:
            n = rng.randint(500, 4000)
        xs, meta = gen.sequence(rng, n=n, scale_range=(-25, 25), need_spread=True)
        oracle = SeqOracle(xs)
        for rep in range(desc.get('hist_per_seq', 3)):
            k = rng.randint(2, 12)
            sizes = gen.random_composition(rng, n, k)
            tree = gen.random_tree(rng, 0, k, rng.choice(['random', 'random', 'left', 'right', 'balanced']))
            for typ in rng.sample([t_ for t_ in TYPES if common.has_type(desc['variant'], t_)], desc.get('types_per_hist', 3)):
                c, tc = build_history_case('%s-%d' % (desc['name'], cid), typ, xs, sizes, tree,
                                           leaf_how=rng.choice(['add', 'add', 'collect', 'extend']))
                c.meta.update(meta)
                cid += 1
                cases.append(c)
                plan.append((c, tc, oracle, sizes, typ))
    logs = run_driver(desc['binary'], ''.join(c.text() for c in cases))
    for c, tc, oracle, sizes, typ in plan:
        recs = logs.get(c.id)
        if recs is None:
            res.inconclusive.append('case %s missing' % c.id)
            continue
        nt = judge_history(typ, c, tc, recs, oracle, sizes, res, variant, memo)
        res.count('histories')
        res.count('sampled_histories')
        if nt and sum(1 for s in sizes if s) >= 2:
            res.distinct.add(c.key())
            res.count('nontrivial_histories')
            mo = oracle.span(0, len(oracle.xs))
            res.count('root_kappa_decade_%s' % __import__('seqcheck').decade(ex.approx(mo.kappa)))
        res.add_set('history_shapes', (tuple(sizes), c.meta['tree']))
        if len(res.samples) < 2 and nt and len(oracle.xs) <= 8:
            res.sample({'type': typ, 'program': c.ops, 'meta': c.meta,
                        'root_observation': {k: common.show(v) for k, v in [r for r in recs if r.kind == 'o'][-1].kv.items()}})
    return res


def shard_lopsided(desc):
    """Highly unbalanced merges: a chunk of 1-3 observations against a chunk thousands to >65536 times larger, in both
    operand orders (small.merge(&large) and large.merge(&small)) and with the small chunk first or last in the sequence."""
    rng = random.Random(desc['seed'])
    res = Result()
    variant = desc['variant']
    cases, plan = [], []
    memo = {}
    k = 0
    for nbig, nsmall, typ in desc['work']:
        big, _ = gen.sequence(rng, n=nbig, scale_range=(-3, 3), max_offset_exp=3, need_spread=True,
                              shape=rng.choice(['normal', 'exp_pos', 'arith', 'lognormal']))
        far = rng.choice([-1.0, 1.0]) * (max(abs(x) for x in big) * rng.choice([3.0, 50.0]) + 1.0)
        small = [far * (1 + 0.1 * i) for i in range(nsmall)]
        for small_first in (True, False):
            xs = (small + big) if small_first else (big + small)
            oracle = SeqOracle(xs)
            sizes = (nsmall, nbig) if small_first else (nbig, nsmall)
            for orient in (0, 1):
                c, tc = build_history_case('%s-%d' % (desc['name'], k), typ, xs, sizes, (0, 1, orient))
                c.meta.update({'lopsided': True, 'ratio': nbig // nsmall})
                k += 1
                cases.append(c)
                plan.append((c, tc, oracle, sizes, typ))
    logs = run_driver(desc['binary'], ''.join(c.text() for c in cases), timeout=3600)
    for c, tc, oracle, sizes, typ in plan:
        recs = logs.get(c.id)
        if recs is None:
            res.inconclusive.append('case %s missing' % c.id)
            continue
        nt = judge_history(typ, c, tc, recs, oracle, sizes, res, variant, memo)
        res.count('histories')
        res.count('lopsided_histories')
        res.count('lopsided_ratio_ge_%d' % (1024 if c.meta['ratio'] < 4096 else (4096 if c.meta['ratio'] < 65536 else 65536)))
        if nt:
            res.distinct.add(c.key())
            res.count('nontrivial_histories')
    return res


from bigcount import shard as shard_bigcount  # noqa: E402


def run(tier, seed):
    t0 = time.time()
    total = Result()
    if tier == 'quick':
        nmax, kmax, nseq, variants, mult = 4, 4, 2400, [('release', 1.0), ('dev', 0.3), ('plain', 0.15), ('bare', 0.15)], 1
    else:
        nmax, kmax, nseq, variants, mult = 5, 5, 40000, [('release', 1.0), ('dev', 0.2), ('nightly', 0.1), ('plain', 0.1), ('bare', 0.1)], 8
    try:
        for variant, frac in variants:
            binary = build(variant)
            # exhaustive core
            work = []
            for sname, full in core_sequences():
                for n in range(1, nmax + 1):
                    for k in range(1, kmax + 1):
                        for typ in TYPES:
                            if common.has_type(variant, typ):
                                work.append((sname, full, n, k, typ))
            if variant != 'release':
                work = [w for w in work if w[3] <= kmax - 1]
            # balance: big (n,k) items first, round-robin
            work.sort(key=lambda w: -(w[2] + 1) ** w[3])
            nsh = common.NPROC * (4 if tier == 'thorough' else 1)
            descs = [{'name': 'c%s%d' % (variant[0], s), 'variant': variant, 'binary': binary, 'work': work[s::nsh]}
                     for s in range(nsh)]
            total.merge(common.run_shards(shard_core, descs))
            # sampled
            nsh = common.NPROC * mult
            descs = [{'name': 's%s%d' % (variant[0], s), 'variant': variant, 'binary': binary,
                      'nseq': max(1, int(nseq * frac) // nsh),
                      'seed': seed * 1000003 + s * 7919 + sum(map(ord, variant))} for s in range(nsh)]
            total.merge(common.run_shards(shard_sampled, descs))
            # lopsided merges (ratios beyond 1024, 4096 and 65536) and huge sample sizes by self-merging
            lop = []
            ratios = [(1100, 1), (4500, 1), (9000, 2), (70000, 1), (140000, 2)] if tier == 'quick' else \
                [(1100, 1), (2100, 2), (4500, 1), (9000, 2), (13000, 3), (70000, 1), (140000, 2), (300000, 1)]
            for nbig, nsmall in ratios:
                for typ in (TYPES if nbig <= 9000 or variant == 'release' else ['Mean', 'Kurtosis']):
                    if not common.has_type(variant, typ):
                        continue
                    if nbig >= 70000 and typ in ('M8', 'M10', 'M5', 'M7', 'M9') and tier == 'quick':
                        continue
                    if nbig >= 140000 and tier == 'quick' and typ not in ('Mean', 'Variance', 'Kurtosis'):
                        continue
                    lop.append((nbig, nsmall, typ))
            lop.sort(key=lambda w: -w[0])
            nsh = common.NPROC
            descs = [{'name': 'l%s%d' % (variant[0], s), 'variant': variant, 'binary': binary, 'work': lop[s::nsh],
                      'seed': seed * 1000003 + s * 31 + sum(map(ord, variant))} for s in range(nsh) if lop[s::nsh]]
            total.merge(common.run_shards(shard_lopsided, descs))
            bc = []
            rng = random.Random(seed)
            for typ in TYPES:
                if not common.has_type(variant, typ):
                    continue
                for ka, kb in [(16, 16), (17, 3), (31, 31), (32, 32), (33, 0), (33, 33), (40, 20), (53, 0), (54, 1), (60, 59), (62, 62)]:
                    bc.append((typ, ka, kb))
            descs = [{'name': 'b%s%d' % (variant[0], s), 'variant': variant, 'binary': binary, 'work': bc[s::nsh], 'prop': PROP,
                      'only': ONLY, 'seed': seed * 1000003 + s * 17 + sum(map(ord, variant))} for s in range(nsh)]
            total.merge(common.run_shards(shard_bigcount, descs))
    except common.Inconclusive as e:
        total.inconclusive.append(str(e))
    need = {'nontrivial_histories': 1000, 'merge_into_empty': 100, 'merge_of_empty': 100, 'merge_singleton': 100,
            'merge_unbalanced_4x': 100, 'lopsided_ratio_ge_1024': 8, 'lopsided_ratio_ge_4096': 8, 'lopsided_ratio_ge_65536': 4,
            'bigcount_states_above_2^32': 50, 'bigcount_states_above_2^53': 20, 'bigcount_nontrivial_states': 50}
    return common.finish(PROP, tier, seed, total, RULE, t0, ASSUME, min_events=need,
                         extra={'builds': [v for v, _ in variants], 'core_nmax': nmax, 'core_kmax': kmax,
                                'exhaustive_core': True})
