"""Exact oracles and judges for the pair estimators: WeightedMean(WithError) and Covariance."""
import math
from fractions import Fraction

import common
from common import PANIC, val, show
import exact as ex
from exact import Expect, U


def _judge_table(prop, typ, E, kv, res, case, variant, context):
    nontrivial = False
    for name, e in E.items():
        tok = kv.get(name)
        if tok is None:
            if common.absent_ok(variant, name):
                continue
            res.violation(prop, '%s.%s:missing' % (typ, name), '%s: accessor %s not reported' % (typ, name), case, variant)
            continue
        if e.special == 'skip':
            res.count('skipped_by_guard')
            continue
        obs = val(tok)
        if obs is PANIC:
            res.violation(prop, '%s.%s:panic' % (typ, name), '%s.%s() panicked %s' % (typ, name, context), case, variant)
            continue
        ok, ratio = ex.check_value(obs, e)
        res.count('comparisons')
        if ratio is not None and not e.vacuous:
            res.maxi(name, ratio)
        if not ok:
            cls = 'envelope'
            if isinstance(obs, float) and (obs != obs or obs in (math.inf, -math.inf)) and e.exact is not None:
                cls = 'nonfinite'
            if e.exact is not None:
                msg = '%s.%s() = %s but exact value is %.17g, |err| = %.3g > bound %.3g (err/unit=%s) %s' % (
                    typ, name, show(tok), ex.approx(e.exact),
                    ex.approx(abs(Fraction(obs) - e.exact)) if ex.fin(obs) else float('nan'),
                    ex.approx(e.bound), ('%.3g' % ratio) if ratio is not None else 'n/a', context)
            else:
                msg = '%s.%s() = %s but expected %r %s' % (typ, name, show(tok), e.special, context)
            res.violation(prop, '%s.%s:%s' % (typ, name, cls), msg, case, variant)
        elif e.exact is not None and not e.vacuous:
            nontrivial = True
    return nontrivial


# ------------------------------------------------------------------ weighted mean

class WeightedOracle:
    """Exact weighted / unweighted statistics of a span of (x, w) pairs."""

    def __init__(self, xs, ws):
        self.xs, self.ws = xs, ws
        self.X, self.DX = ex.scale_ints(xs) if xs else ([], 1)
        self.W, self.DW = ex.scale_ints(ws) if ws else ([], 1)
        self.cache = {}

    def span(self, lo, hi):
        k = (lo, hi)
        v = self.cache.get(k)
        if v is None:
            v = self._compute(lo, hi)
            self.cache[k] = v
        return v

    def _compute(self, lo, hi):
        X, W = self.X[lo:hi], self.W[lo:hi]
        n = hi - lo
        d = {'n': n}
        if n == 0:
            return d
        sw = sum(W)
        sw2 = sum(w * w for w in W)
        swx = sum(w * x for w, x in zip(W, X))
        d['sw'] = Fraction(sw, self.DW)
        d['sw2'] = Fraction(sw2, self.DW * self.DW)
        d['wmean'] = Fraction(swx, sw * self.DX) if sw > 0 else None
        d['M'] = Fraction(max(abs(x) for x in X), self.DX)
        d['mo'] = ex.moments_from_ints(X, self.DX, 2, need_abs=False)
        d['nzero'] = sum(1 for w in W if w == 0)
        return d


def weighted_expect(typ, d):
    n = d['n']
    E = {}
    sw, sw2 = d['sw'], d['sw2']
    relb = ex.C_WSUM * n * U
    if sw <= 0:
        return E
    E['sum_weights'] = Expect(sw, relb * sw, n * U * sw)
    wm_unit = n * U * d['M']
    mean_name = 'mean' if typ == 'WeightedMean' else 'weighted_mean'
    if d['M'] > 0:
        E[mean_name] = Expect(d['wmean'], ex.C_WMEAN * wm_unit, wm_unit)
    else:
        E[mean_name] = Expect(special=('exact', 0.0))
    if typ == 'WeightedMean':
        return E
    E['sum_weights_sq'] = Expect(sw2, relb * sw2, n * U * sw2)
    eff = sw * sw / sw2
    E['effective_len'] = Expect(eff, relb * eff, n * U * eff)
    mo = d['mo']
    if mo.sigma > 0 and mo.kappa <= 10 ** 12:
        m2 = mo.m[2]
        b, unit, vac = ex.env(mo, ex.C_MEAN, mo.sigma)
        E['unweighted_mean'] = Expect(mo.mean, b, unit, vacuous=vac)
        b, unit, vac = ex.env(mo, ex.C_VAR, m2)
        E['population_variance'] = Expect(m2, b, unit, vacuous=vac)
        if n >= 2:
            sv = m2 * n / (n - 1)
            b, unit, vac = ex.env(mo, ex.C_VAR, sv)
            E['sample_variance'] = Expect(sv, b, unit, vacuous=vac)
            vw = sv * sw2 / (sw * sw)
            b, unit, vac = ex.env(mo, ex.C_WVAR, vw)
            E['variance_of_weighted_mean'] = Expect(vw, b, unit, vacuous=vac)
            er = ex.sqrt_frac(vw)
            b, unit, vac = ex.env(mo, ex.C_WVAR, er)
            E['error'] = Expect(er, b, unit, vacuous=vac)
    return E


def judge_weighted_multiset(prop, typ, xs, ws, counts, kv, res, case, variant, context=''):
    """Like judge_weighted for the multiset in which the pair (xs[i], ws[i]) occurs counts[i] times (huge counts reached
    by repeated self-merging)."""
    res.count('evaluations')
    n = sum(counts)
    if 'len' in kv and val(kv['len']) != n:
        res.violation(prop, '%s.len:wrong' % typ, '%s: len()=%r but %d pairs were absorbed %s' % (typ, val(kv['len']), n, context), case, variant)
        return False
    fx = [Fraction(x) for x in xs]
    fw = [Fraction(w) for w in ws]
    sw = sum(c * w for c, w in zip(counts, fw))
    if sw <= 0:
        return False
    # merge equal x values for the unweighted moments
    agg = {}
    for x, c in zip(xs, counts):
        agg[x] = agg.get(x, 0) + c
    vx = sorted(agg)
    d = {'n': n, 'sw': sw, 'sw2': sum(c * w * w for c, w in zip(counts, fw)),
         'wmean': sum(c * w * x for c, w, x in zip(counts, fw, fx)) / sw,
         'M': max(abs(x) for x in fx), 'mo': ex.moments_weighted(vx, [agg[x] for x in vx], 2, need_abs=False), 'nzero': 0}
    E = weighted_expect(typ, d)
    return _judge_table(prop, typ, E, kv, res, case, variant, '(n=%d) %s' % (n, context))


def judge_weighted(prop, typ, oracle, lo, hi, kv, res, case, variant, context=''):
    d = oracle.span(lo, hi)
    n = d['n']
    res.count('evaluations')
    if 'len' in kv:
        ln = val(kv['len'])
        if ln != n:
            res.violation(prop, '%s.len:wrong' % typ, '%s: len()=%r but %d pairs were absorbed %s' % (typ, ln, n, context), case, variant)
            return False
    if n == 0 or d['sw'] <= 0:
        res.count('skipped_zero_total_weight')
        return False
    E = weighted_expect(typ, d)
    nt = _judge_table(prop, typ, E, kv, res, case, variant, '(n=%d, zero weights=%d) %s' % (n, d['nzero'], context))
    if d['nzero'] > 0:
        res.count('states_with_zero_weight')
    return nt and n >= 2


# ------------------------------------------------------------------ covariance

class CovOracle:
    def __init__(self, xs, ys):
        self.xs, self.ys = xs, ys
        self.X, self.DX = ex.scale_ints(xs) if xs else ([], 1)
        self.Y, self.DY = ex.scale_ints(ys) if ys else ([], 1)
        self.cache = {}

    def span(self, lo, hi):
        k = (lo, hi)
        v = self.cache.get(k)
        if v is None:
            v = self._compute(lo, hi)
            self.cache[k] = v
        return v

    def _compute(self, lo, hi):
        X, Y = self.X[lo:hi], self.Y[lo:hi]
        n = hi - lo
        d = {'n': n}
        if n == 0:
            return d
        d['mx'] = ex.moments_from_ints(X, self.DX, 2, need_abs=False)
        d['my'] = ex.moments_from_ints(Y, self.DY, 2, need_abs=False)
        sx, sy = sum(X), sum(Y)
        sxy = sum((n * x - sx) * (n * y - sy) for x, y in zip(X, Y))
        d['cov'] = Fraction(sxy, n * n * n * self.DX * self.DY)    # population covariance
        return d


def cov_expect(d, swap=False):
    n = d['n']
    mx, my = (d['my'], d['mx']) if swap else (d['mx'], d['my'])
    E = {}
    if mx.sigma == 0 or my.sigma == 0:
        return E
    kap = max(mx.kappa, my.kappa)
    if kap > 10 ** 12:
        return E
    unit0 = n * kap * U
    vac = ex.C_COV * unit0 >= ex.VACUOUS

    def put(name, exact_v, C, scale):
        E[name] = Expect(exact_v, C * unit0 * scale, unit0 * scale, vacuous=vac)

    put('mean_x', mx.mean, ex.C_MEAN, mx.sigma)
    put('mean_y', my.mean, ex.C_MEAN, my.sigma)
    put('population_variance_x', mx.m[2], ex.C_VAR, mx.m[2])
    put('population_variance_y', my.m[2], ex.C_VAR, my.m[2])
    sxy = mx.sigma * my.sigma
    put('population_covariance', d['cov'], ex.C_COV, sxy)
    if n >= 2:
        f = Fraction(n, n - 1)
        put('sample_variance_x', mx.m[2] * f, ex.C_VAR, mx.m[2] * f)
        put('sample_variance_y', my.m[2] * f, ex.C_VAR, my.m[2] * f)
        put('sample_covariance', d['cov'] * f, ex.C_COV, sxy * f)
        pear = d['cov'] / ex.sqrt_frac(mx.m[2] * my.m[2])
        put('pearson', pear, ex.C_PEARSON, Fraction(1))
    return E


def judge_cov_multiset(prop, pts, counts, kv, res, case, variant, context=''):
    """Like judge_cov for the multiset in which the pair pts[i] occurs counts[i] times (huge counts by self-merging)."""
    res.count('evaluations')
    n = sum(counts)
    if val(kv['len']) != n:
        res.violation(prop, 'Covariance.len:wrong', 'Covariance: len()=%r but %d pairs were absorbed %s' % (val(kv['len']), n, context), case, variant)
        return False

    def marg(i):
        agg = {}
        for p, c in zip(pts, counts):
            agg[p[i]] = agg.get(p[i], 0) + c
        v = sorted(agg)
        return ex.moments_weighted(v, [agg[x] for x in v], 2, need_abs=False)
    fx = [Fraction(p[0]) for p in pts]
    fy = [Fraction(p[1]) for p in pts]
    mx_ = sum(c * x for c, x in zip(counts, fx)) / n
    my_ = sum(c * y for c, y in zip(counts, fy)) / n
    d = {'n': n, 'mx': marg(0), 'my': marg(1), 'cov': sum(c * (x - mx_) * (y - my_) for c, x, y in zip(counts, fx, fy)) / n}
    E = cov_expect(d)
    if not E:
        res.count('skipped_zero_spread_or_kappa')
        return False
    return _judge_table(prop, 'Covariance', E, kv, res, case, variant, '(n=%d) %s' % (n, context))


def judge_cov(prop, oracle, lo, hi, kv, res, case, variant, swap=False, context=''):
    d = oracle.span(lo, hi)
    n = d['n']
    res.count('evaluations')
    ln = val(kv['len'])
    if ln != n:
        res.violation(prop, 'Covariance.len:wrong', 'Covariance: len()=%r but %d pairs were absorbed %s' % (ln, n, context), case, variant)
        return False
    if n == 0:
        return False
    E = cov_expect(d, swap)
    if not E:
        res.count('skipped_zero_spread_or_kappa')
        return False
    nt = _judge_table(prop, 'Covariance', E, kv, res, case, variant, '(n=%d%s) %s' % (n, ', x/y swapped' if swap else '', context))
    if 'pearson' in E and not E['pearson'].vacuous:
        p = E['pearson'].exact
        if p == 1 or p == -1:
            res.count('exactly_collinear_states')
        elif abs(p) < Fraction(1, 2):
            res.count('weak_correlation_states')
        if p > 0:
            res.count('positive_correlation_states')
        elif p < 0:
            res.count('negative_correlation_states')
    return nt and n >= 2
