"""C10 - bias-corrected sample statistics follow their textbook definitions."""
import itertools
import time

import common
from common import Case, Result, build, run_driver, val, PANIC
import seqprop

PROP = 'C10'
RULE = ('(a) every sequence of length 2..Lmax over a 3-letter alphabet {-1, 0.25, 3} (asymmetric spacing: skew of both '
        'signs) and, in thorough, a 4-letter alphabet, observed at the end; (b) random non-constant sequences from 10 '
        'shape families (scale 1e-25..1e25, offsets to 1e9 spreads), observed after every add; fed to Variance, '
        'Skewness, Kurtosis, WeightedMeanWithError (random weights) and define_moments! types of order 4,5,6,8,10. '
        'sample_variance, variance_of_mean, error/error_mean, sample_skewness (G1, n>=3; 0 within envelope for n=2) and '
        'sample_excess_kurtosis (G2, n>=4; NaN below) are compared with the textbook formulas evaluated on exact rational '
        'central moments, within the section-2 envelopes; (c) sentinel table for n in {0,1}. distinct_nontrivial = '
        'distinct (type, program) cases with >=1 non-trivial checked state.')
ASSUME = ['CPython int/Fraction arithmetic is exact; sqrt via isqrt to 2^-200', 'driver faithfully prints accessor bit patterns',
          'envelope constants of DESIGN.md section 2 (calibrated, fixed)']

SAMPLE = ['sample_variance', 'sample_skewness', 'sample_excess_kurtosis']
TYPES = [('Variance', ['sample_variance', 'variance_of_mean', 'error']),
         ('Skewness', ['sample_variance', 'error_mean']),
         ('Kurtosis', ['sample_variance', 'error_mean']),
         ('WeightedMeanWithError', ['sample_variance']),
         ('Moments4', SAMPLE), ('M4', SAMPLE), ('M5', SAMPLE), ('M6', SAMPLE), ('M7', SAMPLE), ('M8', SAMPLE), ('M9', SAMPLE), ('M10', SAMPLE)]
MTYPES = ['Moments4', 'M4', 'M5', 'M6', 'M7', 'M8', 'M9', 'M10']


def sentinel_shard(desc):
    """n = 0 and n = 1: sample_variance NaN, sample_excess_kurtosis NaN, sample_skewness NaN (n=0) / 0 (n=1)."""
    res = Result()
    cases = []
    xs = [0.0, 1.0, -2.5, 1e30, -1e-30, 3.0e9]
    for t in ['Variance', 'Skewness', 'Kurtosis', 'WeightedMeanWithError'] + MTYPES:
        for x in [None] + xs:
            c = Case('s-%s-%d' % (t, len(cases)), t, meta={'x': x})
            c.op('N', 0)
            if x is not None:
                if t == 'WeightedMeanWithError':
                    c.op('A', 0, [x, 1.0])
                else:
                    c.op('A', 0, [x])
            c.op('O', 0)
            cases.append(c)
    logs = run_driver(desc['binary'], ''.join(c.text() for c in cases))
    for c in cases:
        kv = [r for r in logs[c.id] if r.kind == 'o'][0].kv
        n = 0 if c.meta['x'] is None else 1
        res.count('evaluations')
        res.count('sentinel_states')
        want = {'sample_variance': 'nan'}
        if c.type in MTYPES:
            want['sample_excess_kurtosis'] = 'nan'
            want['sample_skewness'] = 'nan' if n == 0 else 0.0
        for name, w in want.items():
            v = val(kv[name])
            ok = (isinstance(v, float) and v != v) if w == 'nan' else (v == 0.0)
            if not ok:
                res.violation(PROP, '%s.%s:sentinel' % (c.type, name),
                              '%s.%s() = %s for n=%d, expected %s' % (c.type, name, common.show(kv[name]), n, w),
                              c, desc['variant'])
    return res


def enumerated(alphabet, lo, hi):
    seqs = []
    for n in range(lo, hi + 1):
        for t in itertools.product(alphabet, repeat=n):
            if len(set(t)) >= 2:
                seqs.append(list(t))
    return seqs


def run(tier, seed):
    t0 = time.time()
    total = Result()
    base = {'prop': PROP, 'types': TYPES, 'P': 10, 'scale_range': (-25, 25), 'max_offset_exp': 9,
            'need_spread': True, 'min_n': 2, 'maxlen': 150, 'long_prob': 0.005,
            'shapes': ['exp_pos', 'exp_neg', 'twopoint', 'outlier', 'arith', 'bimodal', 'lognormal', 'normal',
                       'smallint', 'exp_pos', 'exp_neg']}
    if tier == 'quick':
        nseq, variants, mult = 300, [('release', 1.0), ('dev', 0.3), ('std', 0.3)], 1
        enum = enumerated([-1.0, 0.25, 3.0], 2, 6)
    else:
        nseq, variants, mult = 15000, [('release', 1.0), ('dev', 0.15), ('std', 0.15)], 8
        enum = enumerated([-1.0, 0.25, 3.0], 2, 8) + enumerated([1e9 - 1.0, 1e9 + 0.25, 1e9 + 3.0, 1e9 + 3.5], 2, 6)
    exhaustive_count = len(enum)
    try:
        for variant, frac in variants:
            binary = build(variant)
            descs = seqprop.make_descs(base, variant, binary, int(nseq * frac), common.NPROC * mult, seed)
            total.merge(common.run_shards(seqprop.shard, descs))
            if variant in ('release', 'dev'):
                nsh = common.NPROC
                edescs = []
                for s in range(nsh):
                    d = dict(base)
                    d.update({'name': 'e%s%d' % (variant[0], s), 'variant': variant, 'binary': binary,
                              'sequences': enum[s::nsh], 'final_only': True, 'seed': s})
                    edescs.append(d)
                r = common.run_shards(seqprop.shard, edescs)
                r.counters['enumerated_cases_%s' % variant] = r.counters.get('cases', 0)
                total.merge(r)
            total.merge(sentinel_shard({'binary': binary, 'variant': variant}))
            if variant in ('release', 'dev'):
                # sample sizes beyond 2^32 by repeated self-merging: n/(n-1) and 1/n factors at huge n
                import bigcount
                only = dict(TYPES)
                bc = [(t, ka, kb) for t in ('Variance', 'Skewness', 'Kurtosis', 'Moments4', 'M6', 'M10')
                      for ka, kb in [(31, 31), (32, 32), (33, 0), (33, 33), (40, 20)]]
                bdescs = [{'name': 'b%s%d' % (variant[0], s), 'variant': variant, 'binary': binary, 'work': bc[s::8], 'prop': PROP,
                           'only': only, 'seed': seed * 7 + s} for s in range(8)]
                total.merge(common.run_shards(bigcount.shard, bdescs))
    except common.Inconclusive as e:
        total.inconclusive.append(str(e))
    need = {'bigcount_states_above_2^32': 20, 'nontrivial_states': 1000, 'seen_skew_pos': 20, 'seen_skew_neg': 20, 'sentinel_states': 50}
    return common.finish(PROP, tier, seed, total, RULE, t0, ASSUME, min_events=need,
                         extra={'builds': [v for v, _ in variants], 'enumerated_sequences': exhaustive_count})
