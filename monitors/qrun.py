"""Shared Quantile workload for C05 (P-square conformance) and C15 (range / bookkeeping
invariants): trie-exhaustive small-alphabet streams and random / sorted / reversed /
zig-zag / trending / heavy-duplicate / constant streams, judged by
  (A) step conformance on the serialised marker state,
  (B) black-box lockstep against a from-scratch reference run,
  (C) mirror metamorphic check  Q_p(x) == -Q_{1-p}(-x),
  (I) the C15 invariants after every observation."""
import math
import random
from fractions import Fraction

import common
from common import Case, Result, run_driver, val, PANIC, f2h, h2f
import gen
import p2


F64_MAX = Fraction(1.7976931348623157e308)


def parse_state(kv):
    # serde_json's Value tree cannot carry non-finite floats (they become null): read them as NaN
    q = [float('nan') if t == 'null' else h2f(t) for t in kv['q'].split(',')]
    n = [int(t[1:]) for t in kv['n'].split(',')]
    m = [float('nan') if t == 'null' else h2f(t) for t in kv['m'].split(',')]
    dm = [float('nan') if t == 'null' else h2f(t) for t in kv['dm'].split(',')]
    return p2.State(q, n, m, dm)


def heights_close(a, b, ref):
    tol = 16 * math.ulp(max(ref, 5e-324))
    return abs(a - b) <= tol


def state_matches(S, T):
    """Does the implementation state S equal the model state T (positions exactly, desired
    positions numerically, heights to 16 ulp of the neighbouring heights)?"""
    if S.n != T.n:
        return False, 'positions %r vs model %r' % (S.n, T.n)
    for i in range(5):
        if S.m[i] != T.m[i]:
            return False, 'desired position m[%d] = %r vs model %r' % (i, S.m[i], T.m[i])
        if S.dm[i] != T.dm[i]:
            return False, 'increment dm[%d] = %r vs model %r' % (i, S.dm[i], T.dm[i])
    for i in range(5):
        ref = max(abs(T.q[max(i - 1, 0)]), abs(T.q[i]), abs(T.q[min(i + 1, 4)]))
        if not heights_close(S.q[i], T.q[i], ref):
            return False, 'height q[%d] = %r vs model %r' % (i, S.q[i], T.q[i])
    return True, ''


def _same_float(a, b):
    return (a != a and b != b) or (a == b and math.copysign(1.0, a) == math.copysign(1.0, b))


def unchanged_overflow(kv, skv, nobs, ref):
    """Known finding 'range-overflows-f64': the P-square formulas form differences of marker heights, which overflow when
    max - min exceeds f64::MAX.  True iff what was observed is exactly what the unchanged algorithm's IEEE arithmetic
    produces on this stream: the from-scratch reference run (p2.run_reference, same operation order) has the same marker
    positions, the same heights wherever they are finite, non-finite heights in the same places (the state dump cannot tell
    +-inf from NaN), and bit-for-bit the same quantile()."""
    if ref is None or nobs < 5 or nobs > len(ref) or ref[nobs - 1] is None:
        return False
    T, near = ref[nobs - 1]
    qv = val(kv['quantile'])
    if not isinstance(qv, float):
        return False
    def same():
        if not _same_float(qv, T.q[2]):
            return False
        if skv is not None:
            S = parse_state(skv)
            if S.n != T.n:
                return False
            for a, b in zip(S.q, T.q):
                fa, fb = (a == a and abs(a) != math.inf), (b == b and abs(b) != math.inf)
                if fa != fb or (fa and a != b):
                    return False
        return True
    # `near`: the reference run met a decision within rounding distance of its boundary and followed one branch only; a
    # mismatch after that point proves nothing, so it is not turned into an alarm on this recorded input class
    return same() or near


class Judge:
    def __init__(self, variant):
        self.r5 = Result()    # C05
        self.r15 = Result()   # C15
        self.variant = variant
        self.events = {}

    # ---------------------------------------------------------------- C15 invariants
    def invariants(self, p, kv, skv, nobs, mn, mx, case, ctx, xs=None, ref=None):
        r = self.r15
        r.count('evaluations')
        r.count('invariant_states')

        # The recorded known finding (known_findings.txt) is identified by its mechanism, not only by the class of input: the
        # suffix is attached only if the observed value is bit-for-bit what the unchanged code's arithmetic gives (see
        # unchanged_overflow).  Any other violation - also on such inputs - keeps a plain signature.
        cls = ''
        if nobs > 0:
            if Fraction(mx) - Fraction(mn) > F64_MAX:
                if unchanged_overflow(kv, skv, nobs, ref):
                    cls = ':range-overflows-f64'

        def viol(sig, msg):
            r.violation('C15', 'Quantile:%s%s' % (sig, cls if sig.startswith(('quantile:out-of-range', 'quantile:nan', 'state:')) else ''),
                        'Quantile(p=%r) %s: %s' % (p, ctx, msg), case, self.variant)
        ln = val(kv['len'])
        if ln != nobs:
            viol('len', 'len() = %r after %d observations' % (ln, nobs))
        ie = val(kv['is_empty'])
        if ie != (nobs == 0):
            viol('is_empty', 'is_empty() = %r with %d observations' % (ie, nobs))
        if not common.same_bits(kv['p'], f2h(p)) and not (p == 0.0 and val(kv['p']) == 0.0):
            viol('p', 'p() = %s but the estimator was constructed with %r' % (common.show(kv['p']), p))
        qv = val(kv['quantile'])
        if qv is PANIC:
            viol('quantile:panic', 'quantile() panicked')
            return
        if nobs == 0:
            if qv == qv:
                viol('quantile:empty', 'quantile() = %r for the empty estimator' % qv)
            return
        if qv != qv:
            viol('quantile:nan', 'quantile() is NaN with %d observations' % nobs)
            return
        if not (mn <= qv <= mx):
            viol('quantile:out-of-range', 'quantile() = %r outside the data range [%r, %r]' % (qv, mn, mx))
        if not common.same_bits(kv['estimate'], kv['quantile']):
            viol('estimate', 'estimate() = %s differs from quantile() = %s' % (common.show(kv['estimate']), common.show(kv['quantile'])))
        if skv is not None and nobs >= 5:
            S = parse_state(skv)
            r.count('state_wellformed_checks')
            if any(not (S.q[i] <= S.q[i + 1]) for i in range(4)):
                viol('state:heights-not-monotone', 'marker heights %r are not non-decreasing' % S.q)
            if not (S.q[0] == mn):
                viol('state:min', 'first marker height %r is not the running minimum %r' % (S.q[0], mn))
            if not (S.q[4] == mx):
                viol('state:max', 'last marker height %r is not the running maximum %r' % (S.q[4], mx))

    # ---------------------------------------------------------------- C05 (A)
    def conformance(self, p, S_prev, x, S_new, kv, case, ctx):
        r = self.r5
        r.count('evaluations')
        r.count('steps_checked')
        if any(S_prev.n[i] >= S_prev.n[i + 1] for i in range(4)):
            r.violation('C05', 'Quantile.add:state:positions-not-increasing',
                        'Quantile(p=%r) %s: marker positions %r are not strictly increasing' % (p, ctx, S_prev.n), case, self.variant)
            return False
        ev = {}
        cands = p2.step(S_prev, x, ev)
        for k, v in ev.items():
            if isinstance(v, int):
                r.count('step_' + k, v)
        ok = False
        why = ''
        for T in cands:
            ok, why = state_matches(S_new, T)
            if ok:
                break
        if not ok:
            cls = 'new-min' if x < S_prev.q[0] else ('new-max' if x > S_prev.q[4] else 'interior')
            if any(x == v for v in S_prev.q):
                cls += '-tie'
            r.violation('C05', 'Quantile.add:step:%s' % cls,
                        'Quantile(p=%r) %s: observing %r in state [%s] gives [%s]; one P-square step gives [%s] (%s)' % (
                            p, ctx, x, S_prev, S_new, cands[0], why), case, self.variant)
            return False
        qv = val(kv['quantile'])
        if not (qv == S_new.q[2]):
            r.violation('C05', 'Quantile.quantile:not-middle-marker',
                        'quantile() = %r but the middle marker height is %r' % (qv, S_new.q[2]), case, self.variant)
        return True

    def check_init(self, p, obs5, S, case, ctx):
        r = self.r5
        r.count('evaluations')
        r.count('init_states_checked')
        T = p2.init_state(p, obs5)
        ok, why = state_matches(S, T)
        if not ok:
            r.violation('C05', 'Quantile.add:init', 'Quantile(p=%r) %s: after the first five observations %r the state is [%s], expected [%s] (%s)' % (
                p, ctx, obs5, S, T, why), case, self.variant)

    # ---------------------------------------------------------------- C05 (B)
    def lockstep(self, p, xs, observed, case, ctx):
        """observed: list of (j, quantile float) for j >= 5."""
        r = self.r5
        ref = p2.run_reference(p, xs)
        M = max(abs(x) for x in xs) if xs else 0.0
        mn = mx = None
        run_min, run_max = [], []
        for x in xs:
            mn = x if mn is None else min(mn, x)
            mx = x if mx is None else max(mx, x)
            run_min.append(mn)
            run_max.append(mx)
        for j, qv in observed:
            if j < 5:
                continue
            S, near = ref[j - 1]
            r.count('lockstep_comparisons')
            tol = (64 + j) * math.ulp(max(M, 5e-324)) + 1e-12 * (run_max[j - 1] - run_min[j - 1])
            if not (abs(qv - S.q[2]) <= tol):
                if near:
                    r.count('lockstep_inconclusive_near_tie')
                    return
                cls = 'decreasing-minima' if any(xs[i] < run_min[i - 1] for i in range(5, j)) else 'other'
                r.violation('C05', 'Quantile.quantile:lockstep:%s' % cls,
                            'Quantile(p=%r) %s: after %d observations quantile() = %r but the P-square reference run gives %r (tolerance %.3g)' % (
                                p, ctx, j, qv, S.q[2], tol), case, self.variant)
                return


def ultralong_shard(desc):
    """One stream of tens to hundreds of millions of observations (driver op AR: cyclic adds, no tokens), with the marker
    state dumped after every observation in a window of 50 around every power of two and power of ten on the way.  Judged
    by (A) step conformance between consecutive dumps - which needs no simulation of the whole stream - and the C15
    invariants; the pool of values is fixed, so the running minimum / maximum are known."""
    rng = random.Random(desc['seed'])
    J = Judge(desc['variant'])
    p = rng.choice([0.5, 0.9, 0.1, 1.0 / 3.0, 0.75])
    pool = [rng.gauss(0, 1) * 50 + rng.choice([0.0, 0.0, 200.0]) for _ in range(499)]
    kmax = desc['kmax']
    targets = sorted(set([2 ** k for k in range(10, kmax + 1)] + [10 ** k for k in range(4, 10) if 10 ** k < 2 ** kmax]))
    c = Case('%s-ultra' % desc['name'], 'Quantile', [p], meta={'kind': 'ultralong', 'targets': targets})
    c.op('N', 0)
    c.op('AR', 0, 998, pool)          # two full cycles: every pool value has been seen
    pos = 998
    windows = []
    for T in targets:
        start = T - 25
        if start <= pos:
            continue
        c.op('AR', 0, start - pos, pool)
        pos = start
        marks = [(c.op('OS', 0), pos, None)]
        for _ in range(50):
            x = rng.choice(pool)
            c.op('A', 0, [x])
            pos += 1
            marks.append((c.op('OS', 0), pos, x))
        windows.append((T, marks))
    logs = run_driver(desc['binary'], c.text(), timeout=3600)
    recs = logs.get(c.id)
    if recs is None:
        J.r5.inconclusive.append('ultralong case missing')
        return J.r5, J.r15
    for r in recs:
        if r.kind in ('p', 'e', 'd'):
            for R, P in ((J.r5, 'C05'), (J.r15, 'C15')):
                R.violation(P, 'Quantile:%s' % ('panic' if r.kind == 'p' else 'harness'),
                            'Quantile(p=%r) ultralong stream: op %d -> %s %s' % (p, r.op, r.kind, r.rest), c, J.variant)
    o_by = {r.op: r for r in recs if r.kind == 'o'}
    s_by = {r.op: r for r in recs if r.kind == 's'}
    mn, mx = min(pool), max(pool)
    for T, marks in windows:
        prev = None
        for opi, j, x in marks:
            o, s = o_by.get(opi), s_by.get(opi)
            if o is None or s is None:
                continue
            ctx = '(ultralong stream, after %d observations)' % j
            J.invariants(p, o.kv, s.kv, j, mn, mx, c, ctx)
            S = parse_state(s.kv)
            if prev is not None and x is not None:
                J.conformance(p, prev, x, S, o.kv, c, ctx)
                J.r5.count('ultralong_steps_checked')
            prev = S
        J.r5.count('ultralong_windows')
        J.r15.count('ultralong_windows')
    J.r5.count('ultralong_max_observations', pos)
    J.r15.count('ultralong_max_observations', pos)
    J.r5.distinct.add(c.key())
    J.r15.distinct.add(c.key())
    return J.r5, J.r15


STREAM_KINDS = ('random', 'sorted', 'reversed', 'zigzag', 'trend_up', 'trend_down', 'dups', 'twovalue', 'constant', 'bigmag',
                'newmin_bursts', 'signed_zero', 'tinymag', 'hugemag', 'nearmax')


def make_stream(rng, kind, n):
    if kind == 'random':
        xs, _ = gen.sequence(rng, n=n, scale_range=(-20, 20), max_offset_exp=6)
        return xs
    if kind == 'sorted':
        return sorted(rng.uniform(-100, 100) for _ in range(n))
    if kind == 'reversed':
        return sorted((rng.uniform(-100, 100) for _ in range(n)), reverse=True)
    if kind == 'zigzag':
        return [(-1) ** i * (i + rng.random()) for i in range(n)]
    if kind == 'trend_up':
        return [i * 0.37 + rng.gauss(0, 3) for i in range(n)]
    if kind == 'trend_down':
        return [-i * 0.37 + rng.gauss(0, 3) for i in range(n)]
    if kind == 'dups':
        vals = [rng.uniform(-5, 5) for _ in range(rng.randint(2, 6))]
        return [rng.choice(vals) for _ in range(n)]
    if kind == 'twovalue':
        a, b = rng.uniform(-5, 5), rng.uniform(-5, 5)
        return [a if rng.random() < 0.6 else b for _ in range(n)]
    if kind == 'constant':
        v = rng.choice([0.0, 1.5, -2e30, 1e-30])
        return [v] * n
    if kind == 'bigmag':
        return [rng.choice([-1, 1]) * rng.uniform(0.1, 1.0) * 1e30 for _ in range(n)]
    if kind == 'newmin_bursts':
        xs = []
        lo = 0.0
        for i in range(n):
            if rng.random() < 0.3:
                lo -= rng.uniform(0.1, 2)
                xs.append(lo)
            else:
                xs.append(rng.uniform(lo, lo + 10))
        return xs
    if kind == 'signed_zero':
        return [rng.choice([0.0, -0.0, 1.0, -1.0, 0.5]) for _ in range(n)]
    if kind == 'tinymag':
        # order-one data scaled by 2^-600: products of two height differences underflow, the values themselves do not
        base = make_stream(rng, rng.choice(['random', 'sorted', 'reversed', 'newmin_bursts', 'trend_down']), n)
        m = max(abs(x) for x in base) or 1.0
        return [x / m * 2.0 ** -600 for x in base]
    if kind == 'hugemag':
        base = make_stream(rng, rng.choice(['random', 'sorted', 'reversed', 'newmin_bursts', 'trend_down']), n)
        m = max(abs(x) for x in base) or 1.0
        return [x / m * 2.0 ** 500 for x in base]
    if kind == 'nearmax':
        # same sign, close to f64::MAX: sums of two observations overflow, differences do not
        s = rng.choice([-1.0, 1.0])
        return [s * rng.uniform(0.5, 1.0) * 1.7976931348623157e308 for _ in range(n)]
    raise ValueError(kind)


P_CHOICES = [0.0, 0.25, 0.5, 0.9, 1.0, 0.1, 1.0 / 3.0, 0.75, 0.99, 0.01]


def judge_stream_case(J, c, p, xs, marks, kind, recs):
    for r in recs:
        if r.kind in ('p', 'e', 'd'):
            for R, P in ((J.r5, 'C05'), (J.r15, 'C15')):
                R.violation(P, 'Quantile:%s' % ('panic' if r.kind == 'p' else 'harness'),
                            'Quantile(p=%r) %s stream: op %d -> %s %s' % (p, kind, r.op, r.kind, r.rest), c, J.variant)
    o_by = {r.op: r for r in recs if r.kind == 'o'}
    s_by = {r.op: r for r in recs if r.kind == 's'}
    prev = None   # (j, State)
    observed = []
    mn = mx = None
    upto = 0
    changed_after5 = False
    ref = None
    if xs and Fraction(max(xs)) - Fraction(min(xs)) > F64_MAX and len(xs) <= 100000:
        ref = p2.run_reference(p, xs)     # only needed to recognise the recorded overflow finding by its mechanism
    for opi, j in marks:
        o, s = o_by.get(opi), s_by.get(opi)
        if o is None or s is None:
            continue
        for x in xs[upto:j]:
            mn = x if mn is None else min(mn, x)
            mx = x if mx is None else max(mx, x)
        upto = j
        ctx = '(%s stream, after %d observations)' % (kind, j)
        J.invariants(p, o.kv, s.kv, j, mn, mx, c, ctx, xs=xs, ref=ref)
        if j >= 5:
            S = parse_state(s.kv)
            qv = val(o.kv['quantile'])
            if isinstance(qv, float):
                observed.append((j, qv))
            if j == 5:
                J.check_init(p, xs[:5], S, c, ctx)
            elif prev is not None and prev[0] == j - 1:
                if J.conformance(p, prev[1], xs[j - 1], S, o.kv, c, ctx):
                    if S.q[1:4] != prev[1].q[1:4]:
                        changed_after5 = True
            prev = (j, S)
    J.lockstep(p, xs, observed, c, '(%s stream)' % kind)
    J.r5.count('streams')
    J.r15.count('streams')
    J.r15.count('streams_%s' % kind)
    if p in (0.0, 1.0):
        J.r15.count('streams_p_extreme')
    if changed_after5:
        J.r5.distinct.add(c.key())
    J.r15.distinct.add(c.key())
    if len(J.r5.samples) < 2 and 7 <= len(xs) <= 9 and changed_after5:
        J.r5.sample({'p': p, 'kind': kind, 'stream': xs, 'program': c.ops[:8] + ['...'],
                     'final_state': str(prev[1]) if prev else None})
    if len(J.r15.samples) < 2 and 7 <= len(xs) <= 9:
        J.r15.sample({'p': p, 'kind': kind, 'stream': xs,
                      'final_observation': {k: common.show(v) for k, v in o_by[marks[-1][0]].kv.items()} if marks[-1][0] in o_by else None})


def stream_shard(desc):
    """Random streams with a dense state dump after every add (n <= dense) or in windows."""
    rng = random.Random(desc['seed'])
    J = Judge(desc['variant'])
    cases, plan = [], []
    for i in range(desc['nstreams']):
        kind = rng.choice(STREAM_KINDS)
        r = rng.random()
        n = rng.randint(5, 60) if r < 0.5 else (rng.randint(60, desc['dense']) if r < 0.95 else rng.randint(1000, desc['longmax']))
        force_long = i < desc.get('nlong', 0)
        if force_long:
            n = rng.randint(66000, 72000)
            if desc.get('verylong') and i == 0:
                n = desc['verylong'] + rng.randint(100, 400)
            kind = rng.choice(['random', 'trend_up', 'newmin_bursts', 'dups'])
        xs = make_stream(rng, kind, n)
        p = rng.choice(P_CHOICES) if rng.random() < 0.8 else rng.random()
        if force_long:
            p = rng.choice([0.75, 0.9, 0.1, 1.0 / 3.0, 0.5])
        c = Case('%s-%d' % (desc['name'], i), 'Quantile', [p], meta={'kind': kind})
        if p == 0.5 and rng.random() < 0.5:
            c.op('D', 0)        # Quantile::default() is the median estimator: must behave as Quantile::new(0.5)
            J.r5.count('streams_from_default')
        else:
            c.op('N', 0)
        marks = [(c.op('OS', 0), 0)]
        # invisible operations: a serde round trip / clone_from in mid-stream must not change what later observations do
        noisy = common.has_serde(desc['variant']) and rng.random() < 0.2
        if noisy:
            J.r5.count('streams_with_invisible_ops')
        if n <= desc['dense']:
            for j, x in enumerate(xs, 1):
                c.op('A', 0, [x])
                if noisy and rng.random() < 0.08:
                    if rng.random() < 0.7:
                        c.op('S', 0, rng.choice(['j', 'v']))
                    else:
                        c.op('K', 29, 0)
                        c.op('Q', 0, p)
                        c.op('KF', 0, 29)
                marks.append((c.op('OS', 0), j))
        else:
            wins = sorted(rng.randint(5, n - 60) for _ in range(4))
            if n > 65600:
                wins = sorted(wins[:2] + [2 ** k_ - 25 for k_ in range(8, 24) if 2 ** k_ + 30 < n])
            pos = 0
            for w in wins:
                if w > pos:
                    c.op('A', 0, xs[pos:w])
                    pos = w
                    marks.append((c.op('OS', 0), pos))
                for j in range(pos, min(pos + 50, n)):
                    c.op('A', 0, [xs[j]])
                    marks.append((c.op('OS', 0), j + 1))
                pos = min(pos + 50, n)
            if pos < n:
                c.op('A', 0, xs[pos:])
                marks.append((c.op('OS', 0), n))
        cases.append(c)
        plan.append((c, p, xs, marks, kind))
        J.r5.count('streams_%s' % kind)
    # mirror pairs (C): dyadic p, tie-free streams
    mirror = []
    for i in range(desc.get('nmirror', 0)):
        kind = rng.choice(['random', 'sorted', 'reversed', 'trend_up', 'trend_down', 'newmin_bursts', 'zigzag'])
        n = rng.randint(6, 300)
        xs = make_stream(rng, kind, n)
        if len(set(xs)) < len(xs):
            continue
        p = rng.choice([0.0, 0.125, 0.25, 0.5, 0.75, 0.875, 1.0, 0.0625])
        if not p2.mirror_exact(p, xs):
            # the paper's sequential marker adjustment is not mirror-symmetric on this stream
            k = 5
            while k < len(xs) and p2.mirror_exact(p, xs[:k + 1]):
                k += 1
            xs = xs[:k]
            J.r5.count('mirror_streams_truncated_order_sensitive')
            if len(xs) < 6:
                continue
        a = Case('%s-ma%d' % (desc['name'], i), 'Quantile', [p])
        b = Case('%s-mb%d' % (desc['name'], i), 'Quantile', [1.0 - p])
        a.op('N', 0)
        b.op('N', 0)
        ma, mb = [], []
        for x in xs:
            a.op('A', 0, [x])
            ma.append(a.op('O', 0))
            b.op('A', 0, [-x])
            mb.append(b.op('O', 0))
        cases += [a, b]
        mirror.append((a, b, ma, mb, p, xs, kind))
    logs = run_driver(desc['binary'], ''.join(c.text() for c in cases))
    for c, p, xs, marks, kind in plan:
        recs = logs.get(c.id)
        if recs is None:
            J.r5.inconclusive.append('case %s missing' % c.id)
            continue
        judge_stream_case(J, c, p, xs, marks, kind, recs)
    if plan:
        J.r5.ensure_sample(plan[0][0])
        J.r15.ensure_sample(plan[0][0])
    for a, b, ma, mb, p, xs, kind in mirror:
        ra, rb = logs.get(a.id), logs.get(b.id)
        if ra is None or rb is None:
            continue
        oa = {r.op: r for r in ra if r.kind == 'o'}
        ob = {r.op: r for r in rb if r.kind == 'o'}
        M = max(abs(x) for x in xs)
        J.r5.count('mirror_pairs')
        for j, (ia, ib) in enumerate(zip(ma, mb), 1):
            if ia not in oa or ib not in ob:
                continue
            qa, qb = val(oa[ia].kv['quantile']), val(ob[ib].kv['quantile'])
            J.r5.count('mirror_comparisons')
            tol = (64 + j) * math.ulp(M) + 1e-12 * (max(xs[:j]) - min(xs[:j]))
            if qa is PANIC or qb is PANIC or not (abs(qa + qb) <= tol):
                J.r5.violation('C05', 'Quantile.quantile:mirror',
                               '%s stream: Q_p(x) = %r but -Q_(1-p)(-x) = %r after %d observations (p=%r): the estimate depends on '
                               'whether new minima or new maxima arrive' % (kind, qa, -qb if qb is not PANIC else qb, j, p), a, desc['variant'])
                break
    return J.r5, J.r15


def judge_trie_case(J, c, p, alphabet, prefix, recs):
    pre = [alphabet[i] for i in prefix]
    stack = {}   # path -> (State or None)
    for r in recs:
        if r.kind in ('p', 'e', 'd'):
            for R, P in ((J.r5, 'C05'), (J.r15, 'C15')):
                R.violation(P, 'Quantile:%s' % ('panic' if r.kind == 'p' else 'harness'),
                            'Quantile(p=%r) trie over %r: %s' % (p, alphabet, r.rest), c, J.variant)
            continue
        if r.kind != 't':
            continue
        path = '' if r.rest == '-' else r.rest
        xs = pre + [alphabet[int(ch, 36)] for ch in path]
        j = len(xs)
        ctx = '(stream %r)' % xs
        mn, mx = (min(xs), max(xs)) if xs else (None, None)
        ref = None
        if xs and Fraction(mx) - Fraction(mn) > F64_MAX:
            ref = p2.run_reference(p, xs)
        J.invariants(p, r.kv, r.kv if j >= 5 else None, j, mn, mx, c, ctx, xs=xs, ref=ref)
        J.r5.count('trie_nodes')
        J.r15.count('trie_nodes')
        S = None
        if j >= 5:
            S = parse_state(r.kv)
            if j == 5:
                J.check_init(p, xs, S, c, ctx)
            else:
                par = stack.get(path[:-1])
                if par is not None:
                    if J.conformance(p, par, xs[-1], S, r.kv, c, ctx):
                        if S.q[1:4] != par.q[1:4]:
                            J.r5.distinct.add(hash((f2h(p), tuple(f2h(x) for x in xs))))
            J.r15.distinct.add(hash((f2h(p), tuple(f2h(x) for x in xs))))
        stack[path] = S
        # drop deeper siblings' states that can no longer be parents (DFS order)
        if len(stack) > 4096:
            keep = {path[:i] for i in range(len(path) + 1)}
            stack = {k2: v for k2, v in stack.items() if k2 in keep}


def trie_shard(desc):
    """Trie-exhaustive streams: prefix (given) + DFS in the driver."""
    J = Judge(desc['variant'])
    cases = []
    for k, (p, alphabet, prefix, depth) in enumerate(desc['work']):
        c = Case('%s-%d' % (desc['name'], k), 'Quantile', [p], meta={'alphabet': alphabet, 'prefix': prefix})
        c.op('N', 0)
        if prefix:
            c.op('A', 0, [alphabet[i] for i in prefix])
        c.op('T', 0, depth, alphabet)
        cases.append((c, p, alphabet, prefix, depth))
    logs = run_driver(desc['binary'], ''.join(c.text() for c, *_ in cases))
    for c, p, alphabet, prefix, depth in cases:
        recs = logs.get(c.id)
        if recs is None:
            J.r5.inconclusive.append('case %s missing' % c.id)
            continue
        judge_trie_case(J, c, p, alphabet, prefix, recs)
    return J.r5, J.r15


def ctor_shard(desc):
    """Quantile::new(p) must panic exactly when p is outside [0, 1] or NaN."""
    r = Result()
    ps = [(-0.0, True), (0.0, True), (1.0, True), (0.5, True), (5e-324, True), (1 - 2 ** -53, True),
          (-1e-300, False), (-5e-324, False), (math.nextafter(1.0, 2.0), False), (2.0, False), (-1.0, False),
          (math.inf, False), (-math.inf, False), (float('nan'), False), (1e300, False)]
    c = Case('ctor', 'Quantile', [0.5])
    marks = []
    for p, valid in ps:
        marks.append((c.op('Q', 1, p), p, valid))
    logs = run_driver(desc['binary'], c.text())
    by_op = {}
    for rec in logs['ctor']:
        by_op[rec.op] = rec
    for opi, p, valid in marks:
        rec = by_op.get(opi)
        r.count('evaluations')
        r.count('constructor_checks')
        panicked = rec is not None and rec.kind == 'p'
        if panicked == valid:
            r.violation('C15', 'Quantile.new:%s' % ('rejects-valid-p' if valid else 'accepts-invalid-p'),
                        'Quantile::new(%r) %s' % (p, 'panicked' if panicked else 'did not panic'), c, desc['variant'])
    return r


def rejudge_quantile(case, recs, variant):
    """Re-judge one Quantile case (stream or trie) from its program.  -> Judge"""
    J = Judge(variant)
    p = case.params[0] if case.params else 0.5
    if any(o.startswith('T ') for o in case.ops):
        judge_trie_case(J, case, p, case.meta['alphabet'], case.meta['prefix'], recs)
        return J
    xs, marks = [], []
    for i, o in enumerate(case.ops):
        t = o.split()
        if t[0] == 'A':
            xs.extend(h2f(x) for x in t[2:])
        elif t[0] in ('O', 'OS'):
            marks.append((i, len(xs)))
    judge_stream_case(J, case, p, xs, marks, case.meta.get('kind', 'replay'), recs)
    return J
