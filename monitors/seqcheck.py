"""Helpers shared by the sequence-based moment checks (C01, C03, C04, C10)."""
import math

from common import Case, val
import exact as ex
import momentcheck as mc


def checkpoints(n, dense_limit=64):
    """Prefix lengths after which the estimator is observed."""
    if n <= dense_limit:
        return list(range(1, n + 1))
    pts = set(range(1, 13))
    k = 16
    while k < n:
        pts.add(k)
        k = int(k * 1.7) + 1
    pts.add(n)
    return sorted(pts)


TRAIT_ADD = ('Mean', 'Variance', 'MeanWithError', 'Skewness', 'Kurtosis')


def prefix_case(cid, typ, xs, dense_limit=64, meta=None, how='add', weights=None, final_only=False, via_trait=False,
                noise=None, serde_ok=True):
    """N 0; A ...; O 0 at every checkpoint.  Returns (case, [(op index, prefix length)]).
    weights: for 2-ary estimators, the second component of each pair.
    noise: a random.Random - between the adds, operations that must be invisible are injected (a serde round trip, a clone
    moved back with clone_from, a merge of an empty estimator, an extend with nothing): whatever an estimator caches
    besides its serialised / merged state shows up as a wrong statistic a few adds later."""
    c = Case(cid, typ, meta=meta or {})
    if via_trait and typ in TRAIT_ADD:
        c.meta['add'] = 'through the Estimate trait'
    c.op('N', 0)
    if noise is not None and noise.random() < 0.4:
        # invisible operations on the still empty estimator: empty merged with empty (both ways), a round trip of nothing
        for _ in range(noise.randint(1, 2)):
            kind = noise.choice(['merge_empty', 'merge_into_empty', 'serde', 'default'])
            if kind == 'merge_empty':
                c.op('N', 30)
                c.op('M', 0, 30)
            elif kind == 'merge_into_empty':
                c.op('N', 30)
                c.op('M', 30, 0)
                c.op('K', 0, 30)
            elif kind == 'serde' and serde_ok and typ not in ('Min', 'Max'):
                c.op('S', 0, noise.choice(['j', 'v']))
            elif kind == 'default' and typ != 'Quantile':
                c.op('D', 0)
        c.meta['noise'] = c.meta.get('noise', 0) + 1
    pts = [len(xs)] if final_only else checkpoints(len(xs), dense_limit)
    marks = []
    prev = 0
    for k in pts:
        if weights is None:
            # via_trait: Estimate::add reached through the trait (op AT) instead of method syntax on the concrete type
            code = 'AT' if (via_trait and typ in TRAIT_ADD) else 'A'
            if noise is not None and prev > 0 and typ not in ('Max', 'Quantile') and noise.random() < 0.2:
                code = noise.choice(['E', 'ER'])        # the same observations through extend (C20: identical to the add loop)
            chunk = xs[prev:k]
        else:
            code = 'A'
            chunk = []
            for x, w in zip(xs[prev:k], weights[prev:k]):
                chunk.append(x)
                chunk.append(w)
        if noise is not None and prev > 0 and typ != 'Quantile' and noise.random() < 0.15:
            # the chunk is absorbed by a separate estimator which is then merged in (either operand order): C02 / C08 / C09
            # promise the same statistics within the envelope (not bit for bit: see meta['merged'])
            c.op('N', 28)
            c.op('A', 28, chunk)
            if noise.random() < 0.5:
                c.op('M', 0, 28)
            else:
                c.op('M', 28, 0)
                c.op('K', 0, 28)
            c.meta['merged'] = True
        else:
            c.op(code, 0, chunk)
        marks.append((c.op('O', 0), k))
        prev = k
        if noise is not None and k < len(xs) and noise.random() < 0.5:
            kind = noise.choice(['serde', 'serde', 'clone', 'merge_empty', 'merge_into_empty', 'extend_nothing'])
            if kind == 'serde' and serde_ok:
                c.op('S', 0, noise.choice(['j', 'v']))
            elif kind == 'clone':
                c.op('K', 29, 0)
                c.op('N', 0)
                c.op('KF', 0, 29)
            elif kind == 'merge_empty':
                c.op('N', 30)
                c.op('M', 0, 30)
            elif kind == 'merge_into_empty':
                c.op('N', 30)
                c.op('M', 30, 0)
                c.op('KF', 0, 30)
            elif kind == 'extend_nothing' and typ not in ('Max', 'Quantile'):
                c.op('E', 0, [])
            c.meta['noise'] = c.meta.get('noise', 0) + 1
    return c, marks


class PrefixOracle:
    """Exact moments of every needed prefix of one sequence, computed once and shared by
    all estimator types fed the same ordering."""

    def __init__(self, xs, P):
        self.xs = xs
        self.P = P
        self.X, self.D = ex.scale_ints(xs)
        self.cache = {}

    def at(self, k):
        mo = self.cache.get(k)
        if mo is None:
            mo = ex.moments_from_ints(self.X[:k], self.D, self.P)
            self.cache[k] = mo
        return mo


def decade(x):
    if x is None or x <= 0:
        return 'none'
    return int(math.floor(math.log10(x)))


def judge_prefix_case(prop, typ, case, marks, recs, oracle, res, variant='release', only=None):
    """Judge all observation records of a prefix case.  Returns number of non-trivial states."""
    by_op = {r.op: r for r in recs if r.kind == 'o'}
    for r in recs:
        if r.kind in ('p', 'e', 'd'):
            res.violation(prop, '%s:%s' % (mc.base_type(typ), 'panic' if r.kind == 'p' else 'harness'),
                          '%s: op %d (%s) -> %s %s' % (typ, r.op, case.ops[r.op][:60] if r.op >= 0 else '', r.kind, r.rest), case, variant)
    nontriv = 0
    for opi, k in marks:
        r = by_op.get(opi)
        if r is None:
            res.violation(prop, '%s:missing-observation' % mc.base_type(typ), '%s: no observation for op %d' % (typ, opi), case, variant)
            continue
        mo = oracle.at(k)
        if mc.judge(prop, typ, oracle.xs[:k], r.kv, res, case, variant, only=only, mo=mo,
                    context='after %d adds' % k, add_only=not case.meta.get('merged')):
            nontriv += 1
            res.count('nontrivial_states')
            res.count('n_decade_%s' % decade(k))
            res.count('kappa_decade_%s' % decade(ex.approx(mo.kappa)))
    return nontriv
