"""Helpers shared by the sequence-based moment checks (C01, C03, C04, C10)."""
import math

from common import Case, val
import exact as ex
import momentcheck as mc


def checkpoints(n, dense_limit=64):
    """Prefix lengths after which the estimator is observed."""
    if n <= dense_limit:
        return list(range(1, n + 1))
    pts = set(range(1, 13))
    k = 16
    while k < n:
        pts.add(k)
        k = int(k * 1.7) + 1
    pts.add(n)
    return sorted(pts)


TRAIT_ADD = ('Mean', 'Variance', 'MeanWithError', 'Skewness', 'Kurtosis')


def prefix_case(cid, typ, xs, dense_limit=64, meta=None, how='add', weights=None, final_only=False, via_trait=False):
    """N 0; A ...; O 0 at every checkpoint.  Returns (case, [(op index, prefix length)]).
    weights: for 2-ary estimators, the second component of each pair."""
    c = Case(cid, typ, meta=meta or {})
    if via_trait and typ in TRAIT_ADD:
        c.meta['add'] = 'through the Estimate trait'
    c.op('N', 0)
    pts = [len(xs)] if final_only else checkpoints(len(xs), dense_limit)
    marks = []
    prev = 0
    for k in pts:
        if weights is None:
            # via_trait: Estimate::add reached through the trait (op AT) instead of method syntax on the concrete type
            c.op('AT' if (via_trait and typ in TRAIT_ADD) else 'A', 0, xs[prev:k])
        else:
            inter = []
            for x, w in zip(xs[prev:k], weights[prev:k]):
                inter.append(x)
                inter.append(w)
            c.op('A', 0, inter)
        marks.append((c.op('O', 0), k))
        prev = k
    return c, marks


class PrefixOracle:
    """Exact moments of every needed prefix of one sequence, computed once and shared by
    all estimator types fed the same ordering."""

    def __init__(self, xs, P):
        self.xs = xs
        self.P = P
        self.X, self.D = ex.scale_ints(xs)
        self.cache = {}

    def at(self, k):
        mo = self.cache.get(k)
        if mo is None:
            mo = ex.moments_from_ints(self.X[:k], self.D, self.P)
            self.cache[k] = mo
        return mo


def decade(x):
    if x is None or x <= 0:
        return 'none'
    return int(math.floor(math.log10(x)))


def judge_prefix_case(prop, typ, case, marks, recs, oracle, res, variant='release', only=None):
    """Judge all observation records of a prefix case.  Returns number of non-trivial states."""
    by_op = {r.op: r for r in recs if r.kind == 'o'}
    for r in recs:
        if r.kind in ('p', 'e', 'd'):
            res.violation(prop, '%s:%s' % (mc.base_type(typ), 'panic' if r.kind == 'p' else 'harness'),
                          '%s: op %d (%s) -> %s %s' % (typ, r.op, case.ops[r.op][:60] if r.op >= 0 else '', r.kind, r.rest), case, variant)
    nontriv = 0
    for opi, k in marks:
        r = by_op.get(opi)
        if r is None:
            res.violation(prop, '%s:missing-observation' % mc.base_type(typ), '%s: no observation for op %d' % (typ, opi), case, variant)
            continue
        mo = oracle.at(k)
        if mc.judge(prop, typ, oracle.xs[:k], r.kv, res, case, variant, only=only, mo=mo,
                    context='after %d adds' % k, add_only=True):
            nontriv += 1
            res.count('nontrivial_states')
            res.count('n_decade_%s' % decade(k))
            res.count('kappa_decade_%s' % decade(ex.approx(mo.kappa)))
    return nontriv
