"""C17 - variances are never negative and means stay within the data range."""
import math
import random
import time
from fractions import Fraction

import common
from common import Case, Result, build, run_driver, val, PANIC
import exact as ex
import gen

PROP = 'C17'
U = Fraction(1, 2 ** 53)
DENORM = Fraction(1, 2 ** 1074)
SINGLE = ['Mean', 'Variance', 'Skewness', 'Kurtosis', 'Moments4', 'M6', 'M10']
PAIR = ['WeightedMean', 'WeightedMeanWithError', 'Covariance']
VAR_ACC = {
    'Variance': [('population_variance', 1), ('sample_variance', 2), ('variance_of_mean', 1), ('error', 1), ('estimate', 1)],
    'Skewness': [('population_variance', 1), ('sample_variance', 2), ('error_mean', 1)],
    'Kurtosis': [('population_variance', 1), ('sample_variance', 2), ('error_mean', 1)],
    'Moments4': [('cm2', 1), ('sample_variance', 2)],
    'M6': [('cm2', 1), ('sample_variance', 2)],
    'M10': [('cm2', 1), ('sample_variance', 2)],
    'WeightedMeanWithError': [('population_variance', 1), ('sample_variance', 2)],
    'Covariance': [('population_variance_x', 1), ('population_variance_y', 1), ('sample_variance_x', 2), ('sample_variance_y', 2)],
}
MEAN_ACC = {'Mean': ['mean', 'estimate'], 'Variance': ['mean'], 'Skewness': ['mean'], 'Kurtosis': ['mean'],
            'Moments4': ['mean'], 'M6': ['mean'], 'M10': ['mean'], 'WeightedMeanWithError': ['unweighted_mean']}
RULE = ('Hostile, unrestricted-conditioning inputs: |x| up to 1e150, common offsets 1e15 x spread (spread below one ulp of the '
        'offset), neighbours one ulp apart, denormals, mixed 1e+-150 magnitudes, long constant runs with one perturbation, plus '
        'ordinary section-3.1 sequences; fed by add (observed after every add for n<=64) and through random merge histories '
        '(every node observed) to Mean, Variance, Skewness, Kurtosis, Moments4, M6, M10, WeightedMean, WeightedMeanWithError, '
        'Covariance; histograms with random counts. Invariants checked on every observation (no envelope on the value): every '
        'variance-like accessor is >= 0 or +inf, never negative, never NaN once the sample size suffices, so error() is real; '
        'every mean within [min, max] of the contributing observations +- 8*n*u*max|x| (no absolute slack: exact for the '
        'smallest subnormals, which a dedicated family of merge histories over k*5e-324 with ordinary weights exercises); weighted mean likewise over the '
        'observations with w>0; effective_len in [1, n](1 +- n*2^-50); histogram bin variances in [0, N/4] +- 4u*N. '
        'distinct_nontrivial = distinct (type, program) cases with >= 2 distinct input values.')
ASSUME = ['driver faithfully prints accessor bit patterns', 'min / max / n of the inputs are computed exactly']


def hostile(rng, n):
    kind = rng.choice(['offset15', 'ulp', 'denormal', 'mixed', 'constperturb', 'big', 'standard', 'standard'])
    if kind == 'offset15':
        base = gen.shape_values(rng, rng.choice(gen.SHAPES), n)
        sp = max(max(base) - min(base), 1e-3)
        sc = 10.0 ** rng.uniform(-100, 100)
        off = rng.choice([-1, 1]) * sp * 10.0 ** rng.uniform(13, 16)
        xs = [(b + off) * sc for b in base]
    elif kind == 'ulp':
        b = rng.choice([-1, 1]) * 10.0 ** rng.uniform(-150, 150)
        cand = [b]
        for _ in range(rng.randint(1, 3)):
            cand.append(math.nextafter(cand[-1], math.inf))
        xs = [rng.choice(cand) for _ in range(n)]
    elif kind == 'denormal':
        cand = [k * 5e-324 for k in (0, 1, 2, 3, 7, 1000, -1, -2, -5)] + [2.2250738585072014e-308, -2.2250738585072014e-308, 1e-300]
        xs = [rng.choice(cand) for _ in range(n)]
    elif kind == 'mixed':
        xs = [rng.choice([-1, 1]) * 10.0 ** rng.uniform(-150, 150) for _ in range(n)]
    elif kind == 'constperturb':
        b = rng.choice([-1, 1]) * 10.0 ** rng.uniform(-100, 100)
        xs = [b] * n
        k = rng.randrange(n)
        xs[k] = rng.choice([math.nextafter(b, math.inf), math.nextafter(b, -math.inf), b * (1 + 1e-9), -b, b * 1e6, 0.0])
    elif kind == 'big':
        xs = [rng.choice([-1, 1]) * rng.uniform(0.1, 1.0) * 1e150 for _ in range(n)]
    else:
        xs, _ = gen.sequence(rng, n=n)
    out = []
    for x in xs:
        if x != x or abs(x) > 1e150:
            x = math.copysign(1e150, x) if x == x else 0.0
        out.append(x)
    return out, kind


def check_state(typ, kv, xs, ws, ys, res, c, variant, ctx, merged=False):
    """xs: contributing observations of this state (span).  ws: weights or None; ys: second coordinate or None."""
    n = len(xs)
    res.count('evaluations')
    if n == 0:
        return
    for name, need in VAR_ACC.get(typ, []):
        if n < need:
            continue
        v = val(kv[name])
        res.count('sign_checks')
        bad = None
        if v is PANIC:
            bad = 'panicked'
        elif v != v:
            bad = 'is NaN'
        elif v < 0:
            bad = 'is negative'
        if bad:
            res.violation(PROP, '%s.%s:%s' % (typ, name, bad.replace(' ', '-')),
                          '%s.%s() = %s %s for n=%d %s' % (typ, name, common.show(kv[name]) if v is not PANIC else 'PANIC', bad, n, ctx), c, variant)
        elif v == 0.0 and len(set(xs)) > 1:
            res.count('variance_underflowed_to_zero')

    def range_check(name, lo, hi, M, what):
        v = val(kv[name])
        res.count('range_checks')
        if v is PANIC or v != v or v in (math.inf, -math.inf):
            res.violation(PROP, '%s.%s:nonfinite' % (typ, name), '%s.%s() = %s for finite data (n=%d) %s' % (
                typ, name, common.show(kv[name]) if v is not PANIC else 'PANIC', n, ctx), c, variant)
            return
        tol = 8 * n * U * M
        fv = Fraction(v)
        if fv < Fraction(lo) - tol or fv > Fraction(hi) + tol:
            res.violation(PROP, '%s.%s:out-of-range' % (typ, name),
                          '%s.%s() = %s lies outside [%r, %r] +- 8nu*max|x| of the %s (n=%d) %s' % (
                              typ, name, common.show(kv[name]), lo, hi, what, n, ctx), c, variant)

    M = Fraction(max(abs(x) for x in xs))
    for name in MEAN_ACC.get(typ, []):
        range_check(name, min(xs), max(xs), M, 'observations')
    if typ == 'Covariance':
        range_check('mean_x', min(xs), max(xs), M, 'x observations')
        range_check('mean_y', min(ys), max(ys), Fraction(max(abs(y) for y in ys)), 'y observations')
    if typ in ('WeightedMean', 'WeightedMeanWithError') and ws is not None:
        contrib = [x for x, w in zip(xs, ws) if w > 0]
        if contrib:
            name = 'mean' if typ == 'WeightedMean' else 'weighted_mean'
            Mc = Fraction(max(abs(x) for x in contrib))
            range_check(name, min(contrib), max(contrib), Mc, 'observations with positive weight')
            res.count('weighted_range_checks')
            if typ == 'WeightedMeanWithError':
                v = val(kv['effective_len'])
                res.count('effective_len_checks')
                slack = Fraction(n, 2 ** 50)
                if v is PANIC or v != v or Fraction(v) < 1 - slack or Fraction(v) > n * (1 + slack):
                    res.violation(PROP, 'WeightedMeanWithError.effective_len:out-of-range',
                                  'effective_len() = %s not in [1, %d] %s' % (common.show(kv['effective_len']), n, ctx), c, variant)
                for name in ('variance_of_weighted_mean', 'error'):
                    if n >= 2:
                        v = val(kv[name])
                        res.count('sign_checks')
                        if v is PANIC or v != v or v < 0:
                            res.violation(PROP, 'WeightedMeanWithError.%s:negative-or-nan' % name,
                                          '%s() = %s for n=%d, sum w>0 %s' % (name, common.show(kv[name]), n, ctx), c, variant)


def shard(desc):
    rng = random.Random(desc['seed'])
    res = Result()
    variant = desc['variant']
    cases, plan = [], []
    cid = 0

    def nid():
        nonlocal cid
        cid += 1
        return '%s-%d' % (desc['name'], cid)

    for i in range(desc['nseq']):
        r = rng.random()
        n = rng.randint(1, 12) if r < 0.5 else (rng.randint(12, 64) if r < 0.9 else rng.randint(64, 2000))
        xs, kind = hostile(rng, n)
        res.count('kind_%s' % kind)
        types = rng.sample(SINGLE, 3) + [rng.choice(PAIR)]
        for typ in types:
            ws = ys = None
            arity = 1
            if typ in ('WeightedMean', 'WeightedMeanWithError'):
                arity = 2
                e = rng.choice([6, 6, 100])
                ws = [0.0 if rng.random() < 0.2 else 10.0 ** rng.uniform(-e, e) for _ in xs]
                if rng.random() < 0.3:
                    ws[0] = 0.0
                second = ws
            elif typ == 'Covariance':
                arity = 2
                ys, _ = hostile(rng, n)
                second = ys
            flat = xs
            if arity == 2:
                flat = []
                for a, b in zip(xs, second):
                    flat += [a, b]
            # add with dense observation
            c = Case(nid(), typ, meta={'kind': kind})
            c.op('N', 0)
            marks = []
            pts = list(range(1, n + 1)) if n <= 64 else sorted(set([1, 2, 3, 5, 8, 13, 21, 34, 55, 89, 144, 233, 377, 610, 987, 1597, n]) & set(range(1, n + 1)))
            prev = 0
            for k in pts:
                c.op('A', 0, flat[prev * arity:k * arity])
                marks.append((c.op('O', 0), 0, k))
                prev = k
            cases.append(c)
            plan.append((c, typ, marks, xs, ws, ys, kind))
            # merge history
            if n >= 2:
                k = rng.randint(2, 9)
                sizes = gen.random_composition(rng, n, k)
                tree = gen.random_tree(rng, 0, k, rng.choice(['random', 'left', 'right', 'balanced']))
                c = Case(nid(), typ, meta={'kind': kind, 'sizes': list(sizes), 'tree': gen.tree_signature(tree)})
                tc = gen.TreeCompiler(c, gen.chunks_of(flat, sizes, arity), arity=arity, observe_leaves=True)
                tc.build(tree)
                offs = [0]
                for s in sizes:
                    offs.append(offs[-1] + s)
                marks = [(opi, offs[a], offs[b]) for opi, (a, b), _ in tc.obs]
                cases.append(c)
                plan.append((c, typ, marks, xs, ws, ys, kind))
                res.count('merge_histories')
    # merges of the smallest subnormals (k * 5e-324) with ordinary weights: the rounding unit is the size of the data, so a
    # merge formula that rounds twice leaves [min, max] by a whole unit; every node and leaf observed
    for i in range(desc.get('ntiny', 0)):
        typ = rng.choice(['Mean', 'Variance', 'Kurtosis', 'M6', 'WeightedMean', 'WeightedMeanWithError', 'WeightedMean',
                          'WeightedMeanWithError', 'Covariance'])
        sgn = rng.choice([1.0, 1.0, -1.0])
        pool = rng.choice([[1], [3], [1, 2], [1, 3, 5], [2, 3, 7], [1, 2, 3, 5, 7]])
        k = rng.randint(2, 4)
        sizes = [rng.randint(1, 3) for _ in range(k)]
        n = sum(sizes)
        xs = [sgn * rng.choice(pool) * 5e-324 for _ in range(n)]
        ws = ys = None
        arity, flat = 1, xs
        if typ in ('WeightedMean', 'WeightedMeanWithError'):
            arity = 2
            wpool = rng.choice([[1.0], [1.0, 2.0, 3.0], [1.0, 0.5], [0.25, 0.5, 3.0, 1e-6]])
            ws = [rng.choice(wpool) for _ in xs]
            flat = [v for x, w in zip(xs, ws) for v in (x, w)]
        elif typ == 'Covariance':
            arity = 2
            ys = [sgn * rng.choice(pool) * 5e-324 for _ in xs]
            flat = [v for x, y in zip(xs, ys) for v in (x, y)]
        tree = gen.random_tree(rng, 0, k, rng.choice(['random', 'left', 'right', 'balanced']))
        c = Case(nid(), typ, meta={'kind': 'tiny-subnormal', 'sizes': list(sizes), 'tree': gen.tree_signature(tree)})
        tc = gen.TreeCompiler(c, gen.chunks_of(flat, sizes, arity), arity=arity, observe_leaves=True)
        tc.build(tree)
        offs = [0]
        for s_ in sizes:
            offs.append(offs[-1] + s_)
        marks = [(opi, offs[a], offs[b]) for opi, (a, b), _ in tc.obs]
        cases.append(c)
        plan.append((c, typ, marks, xs, ws, ys, 'tiny-subnormal'))
        res.count('tiny_subnormal_merge_histories')
    # histograms
    hcases = []
    for i in range(desc.get('nhist', 0)):
        L = rng.choice([3, 10, 100])
        c = Case(nid(), '%s%d' % (desc.get('hist_prefix', 'H'), L))
        edges = [float(j) for j in range(L + 1)]
        c.op('HR', 0, edges)
        mode = rng.choice(['onebin', 'uniform', 'skewed', 'big'])
        if mode == 'onebin':
            c.op('HA', 0, [0.5] * rng.randint(1, 60))
        elif mode == 'uniform':
            c.op('HA', 0, [rng.uniform(0, L) for _ in range(rng.randint(1, 300))])
        elif mode == 'skewed':
            c.op('HA', 0, [abs(rng.gauss(0, L / 8.0)) % L for _ in range(rng.randint(1, 300))])
        else:
            c.op('HA', 0, [rng.uniform(0, L) for _ in range(rng.randint(1, 50))])
            c.op('H*', 0, rng.choice([3, 1000, 10 ** 6, 10 ** 9]))
        # some histograms are re-used: reset / serde round trip / clone_from / merge, then filled further - the bound
        # [0, N/4] refers to the counts the histogram reports, whatever its past
        if rng.random() < 0.5:
            for _ in range(rng.randint(1, 3)):
                how = rng.choice(['reset', 'serde', 'clone', 'merge'])
                if how == 'reset':
                    c.op('HZ', 0)
                elif how == 'serde' and desc.get('hist_serde', True):
                    c.op('S', 0, rng.choice(['j', 'v']))
                elif how == 'clone':
                    c.op('K', 1, 0)
                    c.op('HR', 0, edges)
                    c.op('KF', 0, 1)
                elif how == 'merge':
                    c.op('HR', 1, edges)
                    c.op('HA', 1, [rng.uniform(0, L) for _ in range(rng.randint(0, 5))])
                    c.op(rng.choice(['M', 'H+']), 0, 1)
                c.op('HA', 0, [rng.uniform(0, L) * rng.choice([1.0, 1.0, 0.1]) for _ in range(rng.randint(0, 12))])
            res.count('reused_histograms')
        c.op('O', 0)
        cases.append(c)
        hcases.append(c)
    logs = run_driver(desc['binary'], ''.join(c.text() for c in cases))
    for c, typ, marks, xs, ws, ys, kind in plan:
        recs = logs.get(c.id)
        if recs is None:
            res.inconclusive.append('case %s missing' % c.id)
            continue
        for r in recs:
            if r.kind in ('p', 'e', 'd'):
                res.violation(PROP, '%s:%s' % (typ, 'panic' if r.kind == 'p' else 'harness'),
                              '%s: op %d (%s) -> %s %s' % (typ, r.op, c.ops[r.op][:60], r.kind, r.rest), c, variant)
        by_op = {r.op: r for r in recs if r.kind == 'o'}
        for opi, lo, hi in marks:
            r = by_op.get(opi)
            if r is None or hi <= lo:
                continue
            check_state(typ, r.kv, xs[lo:hi], ws[lo:hi] if ws else None, ys[lo:hi] if ys else None, res, c, variant,
                        '(%s data, items %d..%d)' % (kind, lo, hi), merged='tree' in c.meta)
        res.count('cases')
        if len(set(xs)) >= 2:
            res.distinct.add(c.key())
        if len(res.samples) < 2 and 3 <= len(xs) <= 5 and kind != 'standard':
            res.sample({'type': typ, 'kind': kind, 'program': c.ops,
                        'last_observation': {k: common.show(v) for k, v in [r for r in recs if r.kind == 'o'][-1].kv.items()}})
    if plan:
        res.ensure_sample(plan[0][0])
    for c in hcases:
        recs = logs.get(c.id)
        o = [r for r in recs if r.kind == 'o']
        bad = [r for r in recs if r.kind in ('p', 'e', 'd')]
        if not o or bad:
            res.violation(PROP, 'Histogram:%s' % ('panic' if any(r.kind == 'p' for r in bad) else 'harness'),
                          'no observation' if not o else 'op %d -> %s %s' % (bad[0].op, bad[0].kind, bad[0].rest), c, variant)
            continue
        kv = o[-1].kv
        bins = [int(t[1:]) for t in kv['bins'].split(',')]
        N = sum(bins)
        res.count('evaluations')
        if N == 0:
            continue
        for name in ('variances', 'variance'):
            vs = [val(t) for t in kv[name].split(',')]
            for cnt, v in zip(bins, vs):
                res.count('histogram_variance_checks')
                if v is PANIC or v != v or Fraction(v) < -4 * U * N or Fraction(v) > Fraction(N, 4) + 4 * U * N:
                    res.violation(PROP, 'Histogram.%s:out-of-range' % name,
                                  'bin %s = %r for count %d of total %d: outside [0, N/4]' % (name, v, cnt, N), c, variant)
        res.distinct.add(c.key())
    return res


def special_shard(desc):
    """(a) lopsided merges of a far-away singleton with a tightly clustered chunk thousands to >65536 times larger, in both
    operand orders; (b) sample sizes beyond 2^32 reached by repeated self-merging.  Same invariants."""
    rng = random.Random(desc['seed'])
    res = Result()
    variant = desc['variant']
    cases, plan = [], []
    k = 0
    for nbig, typ in desc['lopsided']:
        centre = rng.choice([-1, 1]) * 10.0 ** rng.uniform(-3, 6)
        big = [centre * (1 + 1e-9 * rng.random()) for _ in range(nbig)]
        small = [centre + rng.choice([-1, 1]) * abs(centre) * rng.choice([0.5, 10.0])]
        for small_first in (True, False):
            xs = (small + big) if small_first else (big + small)
            ws = ys = None
            arity = 1
            flat = xs
            if typ in ('WeightedMean', 'WeightedMeanWithError'):
                arity, ws = 2, [1.0] * len(xs)
                flat = [v for x in xs for v in (x, 1.0)]
            elif typ == 'Covariance':
                arity, ys = 2, [2.0 * x for x in xs]
                flat = [v for x in xs for v in (x, 2.0 * x)]
            sizes = (1, nbig) if small_first else (nbig, 1)
            for orient in (0, 1):
                c = Case('%s-%d' % (desc['name'], k), typ, meta={'kind': 'lopsided', 'sizes': list(sizes), 'tree': '(LL%d)' % orient})
                k += 1
                tc = gen.TreeCompiler(c, gen.chunks_of(flat, sizes, arity), arity=arity)
                tc.build((0, 1, orient))
                cases.append(c)
                plan.append((c, typ, [(tc.obs[-1][0], 0, len(xs))], xs, ws, ys, 'lopsided'))
                res.count('lopsided_histories')
    for typ in desc.get('tworuns', []):
        # two constant runs whose values are 1-3 ulps apart at a large offset, merged exactly at the boundary: the merged
        # mean can round an ulp outside [a, b], which turns "algebraically equal" cross terms negative
        for rep in range(desc.get('tworuns_reps', 6)):
            a = rng.choice([-1, 1]) * rng.choice([1e15 + 0.125, 0.1, 3.3e8, 1e-7, 7.77e20]) * rng.uniform(1, 2)
            b = a
            for _ in range(rng.randint(1, 3)):
                b = math.nextafter(b, math.inf)
            ka, kb = rng.randint(1, 7), rng.randint(1, 7)
            xs = [a] * ka + [b] * kb
            ws = ys = None
            arity, flat = 1, xs
            if typ in ('WeightedMean', 'WeightedMeanWithError'):
                arity, ws = 2, [1.0] * len(xs)
                flat = [v for x in xs for v in (x, 1.0)]
            elif typ == 'Covariance':
                arity, ys = 2, list(reversed(xs))
                flat = [v for x, y in zip(xs, ys) for v in (x, y)]
            for orient in (0, 1):
                c = Case('%s-%d' % (desc['name'], k), typ, meta={'kind': 'tworuns', 'sizes': [ka, kb], 'tree': '(LL%d)' % orient})
                k += 1
                tc = gen.TreeCompiler(c, gen.chunks_of(flat, (ka, kb), arity), arity=arity)
                tc.build((0, 1, orient))
                cases.append(c)
                plan.append((c, typ, [(tc.obs[-1][0], 0, len(xs))], xs, ws, ys, 'tworuns'))
                res.count('tworuns_histories')
    for typ, kk in desc['doubling']:
        base = [float(rng.randint(-9, 9)) + 0.5 for _ in range(rng.randint(2, 4))]
        if len(set(base)) < 2:
            base[0] += 1.0
        c = Case('%s-%d' % (desc['name'], k), typ, meta={'kind': 'doubling', 'k': kk, 'tree': 'doubling'})
        k += 1
        c.op('N', 0)
        if typ == 'Covariance':
            c.op('A', 0, [v for x in base for v in (x, -x)])
        elif typ == 'WeightedMeanWithError':
            c.op('A', 0, [v for x in base for v in (x, 2.0)])
        else:
            c.op('A', 0, base)
        for _ in range(kk):
            c.op('M', 0, 0)
        mk = c.op('O', 0)
        cases.append(c)
        # weighted-count invariants (effective_len <= n) refer to the true sample size base x 2^k: not checked here
        plan.append((c, typ if typ != 'WeightedMeanWithError' else 'WeightedMeanWithError', [(mk, 0, len(base))], base, None,
                     [-x for x in base] if typ == 'Covariance' else None, 'doubling'))
        res.count('doubling_histories')
    logs = run_driver(desc['binary'], ''.join(c.text() for c in cases), timeout=3600)
    for c, typ, marks, xs, ws, ys, kind in plan:
        recs = logs.get(c.id)
        if recs is None:
            res.inconclusive.append('case %s missing' % c.id)
            continue
        for r in recs:
            if r.kind in ('p', 'e', 'd'):
                res.violation(PROP, '%s:%s' % (typ, 'panic' if r.kind == 'p' else 'harness'),
                              '%s (%s): op %d (%s) -> %s %s' % (typ, kind, r.op, c.ops[r.op][:40], r.kind, r.rest), c, variant)
        by_op = {r.op: r for r in recs if r.kind == 'o'}
        for opi, lo, hi in marks:
            if opi in by_op:
                # for the doubling histories the multiset is base x 2^k: min / max / sign invariants are those of base
                check_state(typ, by_op[opi].kv, xs[lo:hi], ws, ys, res, c, variant, '(%s history %s)' % (kind, c.meta), merged=True)
        res.distinct.add(c.key())
    return res


def witness(binary, variant):
    """Regression case of the defect repaired by fix: bcb9a06 (known_findings.txt): merging two weighted means of
    subnormal data with tiny weights used to form weight_sum * mean products that underflow to zero."""
    res = Result()
    cases = []
    for typ in ('WeightedMean', 'WeightedMeanWithError'):
        c = Case('witness-%s' % typ, typ, meta={'kind': 'denormal', 'tree': 'witness', 'sizes': [1, 1]})
        c.op('N', 0)
        c.op('A', 0, [5e-321, 1e-6])
        c.op('N', 1)
        c.op('A', 1, [5e-321, 1e-6])
        c.op('M', 0, 1)
        c.op('O', 0)
        cases.append(c)
    logs = run_driver(binary, ''.join(c.text() for c in cases))
    for c in cases:
        oo = [r for r in logs[c.id] if r.kind == 'o']
        if len(oo) != 1:
            res.inconclusive.append('regression case %s: %d observations' % (c.id, len(oo)))
            continue
        check_state(c.type, oo[0].kv, [5e-321, 5e-321], [1e-6, 1e-6], None, res, c, variant,
                    '(two singletons (5e-321, w=1e-6) merged)', merged=True)
        res.count('witness_cases')
    return res


def run(tier, seed):
    t0 = time.time()
    total = Result()
    if tier == 'quick':
        nseq, nhist, variants, mult = 4800, 1600, [('release', 1.0), ('dev', 0.3)], 1
    else:
        nseq, nhist, variants, mult = 120000, 40000, [('release', 1.0), ('dev', 0.2), ('std', 0.1)], 8
    try:
        for variant, frac in variants:
            binary = build(variant)
            nsh = common.NPROC * mult
            descs = [{'name': '%s%d' % (variant[0], s), 'variant': variant, 'binary': binary,
                      'nseq': max(1, int(nseq * frac) // nsh), 'nhist': max(1, int(nhist * frac) // nsh), 'ntiny': 40 if tier == 'quick' else 200,
                      'seed': seed * 1000003 + s * 7919 + sum(map(ord, variant))} for s in range(nsh)]
            total.merge(common.run_shards(shard, descs))
            total.merge(witness(binary, variant))
            if variant == 'release':
                # the const-generic histogram (nightly build): histogram part only
                nb = build('nightly')
                hd = [{'name': 'n%d' % s, 'variant': 'nightly', 'binary': nb, 'nseq': 0, 'nhist': max(1, nhist // (4 * nsh)), 'ntiny': 0,
                       'hist_prefix': 'CH', 'hist_serde': False, 'seed': seed * 31 + s} for s in range(nsh)]
                total.merge(common.run_shards(shard, hd))
            lop = [(n, t) for n in ((4200, 9000, 70000) if tier == 'quick' else (4200, 9000, 70000, 140000))
                   for t in ('Mean', 'Variance', 'Kurtosis', 'M6', 'WeightedMeanWithError', 'Covariance')]
            dbl = [(t, kk) for t in ('Variance', 'Skewness', 'Kurtosis', 'M6', 'WeightedMeanWithError', 'Covariance') for kk in (31, 33, 40, 60)]
            nsh2 = 8
            descs = [{'name': 'x%s%d' % (variant[0], s), 'variant': variant, 'binary': binary, 'lopsided': lop[s::nsh2],
                      'doubling': dbl[s::nsh2], 'tworuns': ['Variance', 'Skewness', 'Kurtosis', 'M6', 'WeightedMeanWithError', 'Covariance', 'Mean'][s::nsh2],
                      'tworuns_reps': 12 if tier == 'quick' else 200, 'seed': seed * 77 + s} for s in range(nsh2)]
            total.merge(common.run_shards(special_shard, descs))
    except common.Inconclusive as e:
        total.inconclusive.append(str(e))
    need = {'tiny_subnormal_merge_histories': 500, 'tworuns_histories': 100, 'lopsided_histories': 20, 'doubling_histories': 20, 'sign_checks': 20000, 'range_checks': 20000, 'merge_histories': 1000, 'effective_len_checks': 500,
            'weighted_range_checks': 500, 'histogram_variance_checks': 2000, 'reused_histograms': 300}
    for k in ('offset15', 'ulp', 'denormal', 'mixed', 'constperturb', 'big', 'standard'):
        need['kind_%s' % k] = 50
    return common.finish(PROP, tier, seed, total, RULE, t0, ASSUME, min_events=need,
                         extra={'builds': [v for v, _ in variants] + ['nightly (histogram_const)']})


def rejudge(case, recs, res, variant, v):
    import replay
    exp = replay.interpret(case)
    for r in recs:
        if r.kind != 'o' or r.op not in exp:
            continue
        items = exp[r.op]
        if not items:
            continue
        if case.type in PAIR:
            xs = [a for a, _ in items]
            second = [b for _, b in items]
            ws = second if case.type != 'Covariance' else None
            ys = second if case.type == 'Covariance' else None
        else:
            xs, ws, ys = items, None, None
        check_state(case.type, r.kv, xs, ws, ys, res, case, variant, '(replay, op %d)' % r.op,
                    merged=any(o.startswith('M ') for o in case.ops[:r.op]))
