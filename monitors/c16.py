"""C16 - empty, one-observation and constant samples follow the documented contract."""
import math
import random
import time

import common
from common import Case, Result, build, run_driver, val, PANIC
import gen
import exact as ex

PROP = 'C16'
MOM = {'Moments4': 4, 'M4': 4, 'M5': 5, 'M6': 6, 'M7': 7, 'M8': 8, 'M9': 9, 'M10': 10, 'M12': 12, 'M17': 17, 'M20': 20}
PAR = ('Mean', 'Variance', 'Skewness', 'Kurtosis', 'Min', 'Max', 'Moments4', 'M6')
SINGLE = ['Mean', 'Variance', 'Skewness', 'Kurtosis', 'Min', 'Max', 'Quantile'] + list(MOM)
PAIR = ['WeightedMean', 'WeightedMeanWithError', 'Covariance']
RULE = ('The sentinel table transcribed from the property statement and the doc comments: (type x accessor x state) -> '
        'NaN / +inf / -inf / exact value / must-panic / finite. States: empty (new() and default()); one observation x; '
        'constant add-only streams of x of length 2..10, 100, 10^4; non-constant samples of size 2, 3, 4 (every accessor must '
        'be a finite number except the documented NaNs); zero total weight. x ranges over ~200 values spanning the C01 domain '
        '(both signs, 0, 1e+-30, one-ulp neighbours). Every public estimator type incl. define_moments! orders 4..10, 12, 17, 20; empty also by collecting nothing (sequentially, in parallel). Any '
        'panic other than standardized_moment(p>=3) at zero variance is a violation, and that one must panic. '
        'distinct_nontrivial = distinct (type, program) cases.')
ASSUME = ['driver faithfully prints accessor bit patterns and converts panics of single accessors into "!" tokens',
          'the table in monitors/c16.py is a faithful transcription of the statement']

NANS = ('nan',)


def eq(v):
    return ('eq', v)


def table(typ, state, x=None, y=None, n=None):
    """state: 'empty' | 'one' | 'const' | 'zero_weight' | 'distinct'  -> {accessor: spec}"""
    T = {}
    if typ in ('Mean', 'Variance', 'Skewness', 'Kurtosis') or typ in MOM:
        if state == 'empty':
            T['len'] = eq(0)
            T['is_empty'] = eq(True)
            T['mean'] = NANS
        elif state in ('one', 'const'):
            T['len'] = eq(n)
            T['is_empty'] = eq(False)
            T['mean'] = eq(x)
        else:
            T['len'] = eq(n)
            T['mean'] = ('finite',)
    if typ == 'Mean':
        T['estimate'] = T['mean']
    if typ in ('Variance', 'Skewness', 'Kurtosis'):
        if state == 'empty':
            T['sample_variance'] = NANS
            T['population_variance'] = NANS
        elif state in ('one', 'const'):
            T['population_variance'] = eq(0.0)
            T['sample_variance'] = NANS if n < 2 else eq(0.0)
        else:
            T['population_variance'] = ('finite',)
            T['sample_variance'] = ('finite',)
    if typ == 'Variance':
        if state == 'empty':
            T['variance_of_mean'] = NANS
            T['error'] = NANS
            T['estimate'] = NANS
        elif state in ('one', 'const'):
            T['variance_of_mean'] = eq(0.0)
            T['error'] = eq(0.0)
            T['estimate'] = eq(0.0)
        else:
            T['variance_of_mean'] = ('finite',)
            T['error'] = ('finite',)
    if typ in ('Skewness', 'Kurtosis'):
        if state == 'empty':
            T['error_mean'] = NANS
            T['skewness'] = NANS
        elif state in ('one', 'const'):
            T['error_mean'] = eq(0.0)
            T['skewness'] = eq(0.0)
        else:
            T['error_mean'] = ('finite',)
            T['skewness'] = ('finite',)
        if typ == 'Skewness':
            T['estimate'] = T['skewness']
    if typ == 'Kurtosis':
        if state == 'empty':
            T['kurtosis'] = NANS
        elif state in ('one', 'const'):
            T['kurtosis'] = eq(0.0)
        else:
            T['kurtosis'] = ('finite',)
        T['estimate'] = T['kurtosis']
    if typ in MOM:
        N = MOM[typ]
        T['cm0'] = eq(1.0)
        T['cm1'] = eq(0.0)
        T['sm1'] = eq(0.0)
        T['sm2'] = eq(1.0)
        T['sm0'] = eq(float(n or 0))
        for p in range(2, N + 1):
            if state == 'empty':
                T['cm%d' % p] = NANS
            elif state in ('one', 'const'):
                T['cm%d' % p] = eq(0.0)
            else:
                T['cm%d' % p] = ('finite',)
        for p in range(3, N + 1):
            if state == 'empty':
                T['sm%d' % p] = ('nopanic',)
            elif state in ('one', 'const'):
                T['sm%d' % p] = ('panic',)
            else:
                T['sm%d' % p] = ('finite',)
        if state == 'empty':
            T['sample_variance'] = NANS
            T['sample_skewness'] = NANS
            T['sample_excess_kurtosis'] = NANS
        elif state in ('one', 'const'):
            T['sample_variance'] = NANS if n < 2 else eq(0.0)
            if n == 1:
                T['sample_skewness'] = eq(0.0)
            if n < 4:
                T['sample_excess_kurtosis'] = NANS
        else:
            T['sample_variance'] = ('finite',)
            T['sample_skewness'] = ('finite',)
            T['sample_excess_kurtosis'] = NANS if n < 4 else ('finite',)
    if typ == 'Min':
        T['min'] = eq(math.inf) if state == 'empty' else (eq(x) if state in ('one', 'const') else ('finite',))
        T['estimate'] = T['min']
    if typ == 'Max':
        T['max'] = eq(-math.inf) if state == 'empty' else (eq(x) if state in ('one', 'const') else ('finite',))
        T['estimate'] = T['max']
    if typ == 'Quantile':
        if state == 'empty':
            T.update({'len': eq(0), 'is_empty': eq(True), 'quantile': NANS, 'estimate': NANS})
        elif state in ('one', 'const'):
            T.update({'len': eq(n), 'is_empty': eq(False), 'quantile': eq(x), 'estimate': eq(x)})
        else:
            T.update({'len': eq(n), 'quantile': ('finite',)})
    if typ == 'WeightedMean':
        if state == 'empty':
            T.update({'is_empty': eq(True), 'sum_weights': eq(0.0), 'mean': NANS})
        elif state == 'zero_weight':
            T.update({'sum_weights': eq(0.0), 'mean': NANS})
        elif state in ('one', 'const'):
            T.update({'is_empty': eq(False), 'mean': eq(x)})
        else:
            T.update({'mean': ('finite',), 'sum_weights': ('finite',)})
    if typ == 'WeightedMeanWithError':
        if state == 'empty':
            T.update({'len': eq(0), 'is_empty': eq(True), 'sum_weights': eq(0.0), 'sum_weights_sq': eq(0.0),
                      'weighted_mean': NANS, 'unweighted_mean': NANS, 'effective_len': eq(0.0),
                      'population_variance': NANS, 'sample_variance': NANS, 'variance_of_weighted_mean': NANS,
                      'error': NANS})
        elif state == 'zero_weight':
            T.update({'len': eq(n), 'is_empty': eq(False), 'sum_weights': eq(0.0), 'weighted_mean': NANS,
                      'variance_of_weighted_mean': NANS, 'error': NANS})
        elif state in ('one', 'const'):
            T.update({'len': eq(n), 'is_empty': eq(False), 'weighted_mean': eq(x), 'unweighted_mean': eq(x),
                      'population_variance': eq(0.0), 'sample_variance': NANS if n < 2 else eq(0.0),
                      'variance_of_weighted_mean': NANS if n < 2 else eq(0.0), 'error': NANS if n < 2 else eq(0.0)})
            if n == 1:
                T['effective_len'] = eq(1.0)
        else:
            for k in ('weighted_mean', 'unweighted_mean', 'sum_weights', 'sum_weights_sq', 'effective_len',
                      'population_variance', 'sample_variance', 'variance_of_weighted_mean', 'error'):
                T[k] = ('finite',)
            T['len'] = eq(n)
    if typ == 'Covariance':
        allacc = ['mean_x', 'mean_y', 'sample_variance_x', 'population_variance_x', 'sample_variance_y',
                  'population_variance_y', 'sample_covariance', 'population_covariance', 'pearson']
        if state == 'empty':
            T.update({k: NANS for k in allacc})
            T.update({'len': eq(0), 'is_empty': eq(True)})
        elif state in ('one', 'const'):
            T.update({'len': eq(n), 'is_empty': eq(False), 'mean_x': eq(x), 'mean_y': eq(y),
                      'population_variance_x': eq(0.0), 'population_variance_y': eq(0.0),
                      'population_covariance': eq(0.0)})
            if n < 2:
                T.update({'sample_variance_x': NANS, 'sample_variance_y': NANS, 'sample_covariance': NANS, 'pearson': NANS})
            else:
                T.update({'sample_variance_x': eq(0.0), 'sample_variance_y': eq(0.0), 'sample_covariance': eq(0.0)})
        else:
            T.update({k: ('finite',) for k in allacc})
            T['len'] = eq(n)
    return T


def judge(typ, state, kv, T, res, c, variant, desc):
    res.count('evaluations')
    for name, spec in T.items():
        tok = kv.get(name)
        if tok is None:
            res.violation(PROP, '%s.%s:missing' % (typ, name), 'accessor not reported', c, variant)
            continue
        v = val(tok)
        res.count('table_cells_checked')
        kind = spec[0]
        ok = True
        if kind == 'panic':
            ok = v is PANIC
            res.count('expected_panics_seen' if ok else 'expected_panics_missing')
        elif v is PANIC:
            ok = False
        elif kind == 'nopanic':
            ok = True
        elif kind == 'nan':
            ok = isinstance(v, float) and v != v
        elif kind == 'eq':
            ok = (v == spec[1]) and (isinstance(v, bool) == isinstance(spec[1], bool))
        elif kind == 'finite':
            ok = isinstance(v, float) and v == v and v not in (math.inf, -math.inf)
        if not ok:
            cls = 'panic' if v is PANIC else ('no-panic' if kind == 'panic' else 'sentinel')
            res.violation(PROP, '%s.%s:%s:%s' % (typ, name, state, cls),
                          '%s.%s() = %s in state %s (%s); the contract says %r' % (typ, name, common.show(tok) if v is not PANIC else 'PANIC', state, desc, spec),
                          c, variant)


def values(rng):
    vs = [0.0, -0.0, 1.0, -1.0, 1e-30, -1e-30, 1e30, -1e30, 0.1, -0.1, 1.0 / 3.0, 3.0e9 + 0.7, 2.0 ** 52 + 1, 1.5e-20]
    for e in range(-30, 31, 3):
        m = rng.uniform(1, 9.99)
        vs.append(gen.clampC01(m * 10.0 ** e))
        vs.append(gen.clampC01(-m * 10.0 ** e))
    more = []
    for v in vs[2:40]:
        more.append(gen.clampC01(math.nextafter(v, math.inf)))
        more.append(gen.clampC01(math.nextafter(v, -math.inf)))
    vs += more
    while len(vs) < 200:
        vs.append(gen.clampC01(rng.choice([-1, 1]) * 10.0 ** rng.uniform(-30, 30)))
    return vs


def shard(desc):
    rng = random.Random(desc['seed'])
    res = Result()
    variant = desc['variant']
    cases, plan = [], []
    cid = 0

    def nid():
        nonlocal cid
        cid += 1
        return '%s-%d' % (desc['name'], cid)

    vals = desc['values']
    lens = desc['lens']
    for typ in SINGLE + PAIR:
        arity = 2 if typ in PAIR else 1
        params = [rng.choice([0.0, 0.3, 0.5, 1.0])] if typ == 'Quantile' else []
        # empty
        c = Case(nid(), typ, params)
        c.op('N', 0)
        m0 = c.op('O', 0)
        c.op('D', 1)
        m1 = c.op('O', 1)
        ways = [(m0, 'empty', table(typ, 'empty', n=0), 'new()'), (m1, 'empty', table(typ, 'empty', n=0), 'default()')]
        if typ != 'Quantile':
            # an empty estimator reached by collecting nothing (by value, by reference, from a parallel iterator)
            c.op('F', 2, [])
            ways.append((c.op('O', 2), 'empty', table(typ, 'empty', n=0), 'collect of nothing'))
            c.op('FR', 3, [])
            ways.append((c.op('O', 3), 'empty', table(typ, 'empty', n=0), 'collect of nothing, by reference'))
            if typ in PAR and common.has_rayon(variant):
                c.op('P', 4, 2, 0, 0, 'v', 0, 0, [])
                ways.append((c.op('O', 4), 'empty', table(typ, 'empty', n=0), 'parallel collect of nothing'))
                c.op('P', 5, 3, 1, 1, 'r', 0, 't' + common.f2h(2.0), [1.0, 1.5])
                ways.append((c.op('O', 5), 'empty', table(typ, 'empty', n=0), 'parallel collect behind a filter that rejects everything'))
                res.count('empty_parallel_collects', 2)
        cases.append(c)
        plan.append((c, typ, ways))
        # one observation and constant streams
        for x in vals:
            c = Case(nid(), typ, params)
            c.op('N', 0)
            marks = []
            y = rng.choice(vals) if typ == 'Covariance' else None
            total = 0
            use_extend = typ not in ('Max', 'Quantile') and rng.random() < 0.5
            for L in lens:
                step = L - total
                if use_extend and total > 0:
                    # the same constant stream continued with extend (by value / by reference), which C20 shows to be
                    # the add loop: the contract for identical observations must hold however they were ingested
                    if arity == 2:
                        flat = []
                        for _ in range(step):
                            flat += [x, y] if typ == 'Covariance' else [x, 10.0 ** rng.uniform(-6, 6)]
                    else:
                        flat = [x] * step
                    c.op(rng.choice(['E', 'ER']), 0, flat)
                    total = L
                    st = 'const'
                    marks.append((c.op('O', 0), st, table(typ, st, x=x, y=y, n=L), 'x=%r n=%d' % (x, L)))
                    res.count('const_states_via_extend')
                    continue
                if arity == 2:
                    if typ == 'Covariance':
                        pair = [x, y]
                        flat = pair * step
                    else:
                        flat = []
                        for _ in range(step):
                            flat += [x, 10.0 ** rng.uniform(-6, 6)]
                    c.op('A', 0, flat)
                else:
                    c.op('A', 0, [x] * step)
                total = L
                st = 'one' if L == 1 else 'const'
                marks.append((c.op('O', 0), st, table(typ, st, x=x, y=y, n=L), 'x=%r n=%d' % (x, L)))
                res.count('const_states_len_%d' % L if L in (1, 2, 10, 100, 10000) else 'const_states_other')
            c.meta['marks'] = [(opi, st, common.f2h(x), None if y is None else common.f2h(y), int(d.split('n=')[1])) for opi, st, _, d in marks]
            cases.append(c)
            plan.append((c, typ, marks))
        # non-constant samples of size 2, 3, 4
        for rep in range(desc['ndistinct']):
            n = rng.choice([2, 3, 4])
            xs, _ = gen.sequence(rng, n=n, need_spread=True, scale_range=(-20, 20), max_offset_exp=6)
            if len(set(xs)) < n:
                continue
            order = MOM.get(typ, {'Kurtosis': 4, 'Skewness': 3}.get(typ, 2))
            if not ex.representable(ex.moments(xs, 2), order):
                # sigma^P underflows or n*M^P overflows: outside the representable domain (DESIGN.md section 2)
                res.count('distinct_skipped_by_guard')
                continue
            c = Case(nid(), typ, params)
            c.op('N', 0)
            if arity == 2:
                if typ == 'Covariance':
                    ys, _ = gen.sequence(rng, n=n, need_spread=True, scale_range=(-20, 20), max_offset_exp=6)
                    if len(set(ys)) < 2 or not ex.representable(ex.moments(ys, 2), 2):
                        continue
                    flat = []
                    for a, b in zip(xs, ys):
                        flat += [a, b]
                else:
                    flat = []
                    for a in xs:
                        flat += [a, 10.0 ** rng.uniform(-6, 6)]
                c.op('A', 0, flat)
            else:
                c.op('A', 0, xs)
            mk = c.op('O', 0)
            cases.append(c)
            plan.append((c, typ, [(mk, 'distinct', table(typ, 'distinct', n=n), 'n=%d distinct values' % n)]))
        # zero total weight
        if typ in ('WeightedMean', 'WeightedMeanWithError'):
            for n in (1, 2, 5):
                c = Case(nid(), typ)
                c.op('N', 0)
                flat = []
                for _ in range(n):
                    flat += [rng.choice(vals), 0.0]
                c.op('A', 0, flat)
                mk = c.op('O', 0)
                cases.append(c)
                plan.append((c, typ, [(mk, 'zero_weight', table(typ, 'zero_weight', n=n), 'n=%d, all weights zero' % n)]))
            # total weight exactly zero through cancelling weights (w, -w): the doc comments promise NaN for
            # "if the sum of weights is zero", not only for all-zero weights
            for n in (2, 3, 4):
                c = Case(nid(), typ)
                c.op('N', 0)
                w = 10.0 ** rng.uniform(-3, 3)
                ws = [w, -w] + ([0.0] if n >= 3 else []) + ([0.0] if n >= 4 else [])
                xs_ = [rng.choice(vals) for _ in range(n)]
                flat = []
                for a, b in zip(xs_, ws):
                    flat += [a, b]
                c.op('A', 0, flat)
                mk = c.op('O', 0)
                cases.append(c)
                plan.append((c, typ, [(mk, 'zero_weight', table(typ, 'zero_weight', n=n), 'n=%d, weights cancel to zero' % n)]))
    logs = run_driver(desc['binary'], ''.join(c.text() for c in cases))
    for c, typ, marks in plan:
        recs = logs.get(c.id)
        if recs is None:
            res.inconclusive.append('case %s missing' % c.id)
            continue
        for r in recs:
            if r.kind in ('p', 'e', 'd'):
                res.violation(PROP, '%s:%s' % (typ, 'op-panic' if r.kind == 'p' else 'harness'),
                              '%s: op %d (%s) -> %s %s' % (typ, r.op, c.ops[r.op][:60], r.kind, r.rest), c, variant)
        by_op = {r.op: r for r in recs if r.kind == 'o'}
        for opi, st, T, d in marks:
            r = by_op.get(opi)
            if r is None:
                continue
            judge(typ, st, r.kv, T, res, c, variant, d)
            res.count('states_%s' % st)
        res.count('cases_%s' % typ)
        res.distinct.add(c.key())
        if len(res.samples) < 2 and typ == 'M5' and len(c.ops) > 3:
            res.sample({'type': typ, 'program': [o[:80] for o in c.ops[:6]],
                        'first_observation': {k: (common.show(v) if v != '!' else 'PANIC') for k, v in [r for r in recs if r.kind == 'o'][0].kv.items()}})
    return res


def run(tier, seed):
    t0 = time.time()
    total = Result()
    rng = random.Random(seed)
    vals = values(rng)
    if tier == 'quick':
        variants = [('release', 1.0), ('dev', 0.5), ('std', 0.25)]
        lens = [1, 2, 3, 4, 5, 6, 7, 8, 9, 10, 100]
        nd = 40
    else:
        variants = [('release', 1.0), ('dev', 1.0), ('std', 0.3), ('nightly', 0.3)]
        lens = [1, 2, 3, 4, 5, 6, 7, 8, 9, 10, 100, 10000]
        nd = 400
    try:
        for variant, frac in variants:
            binary = build(variant)
            nsh = common.NPROC
            vv = vals if frac >= 1.0 else vals[::int(1 / frac)]
            descs = [{'name': '%s%d' % (variant[0], s), 'variant': variant, 'binary': binary, 'values': vv[s::nsh],
                      'lens': lens if not (tier == 'quick' and s % 4) else lens, 'ndistinct': nd,
                      'seed': seed * 1000003 + s * 7919 + sum(map(ord, variant))} for s in range(nsh)]
            if tier == 'quick':
                # one long constant stream per type in quick as well
                descs[0]['lens'] = lens + [10000]
            total.merge(common.run_shards(shard, descs))
    except common.Inconclusive as e:
        total.inconclusive.append(str(e))
    need = {'const_states_via_extend': 500, 'states_empty': 30, 'states_one': 500, 'states_const': 5000, 'states_distinct': 300, 'states_zero_weight': 6,
            'expected_panics_seen': 1000, 'const_states_len_10000': 10}
    for t in SINGLE + PAIR:
        need['cases_%s' % t] = 20
    return common.finish(PROP, tier, seed, total, RULE, t0, ASSUME, min_events=need,
                         extra={'builds': [v for v, _ in variants], 'values': len(vals), 'stream_lengths': lens})


def rejudge(case, recs, res, variant, v):
    typ = case.type
    by_op = {r.op: r for r in recs if r.kind == 'o'}
    marks = case.meta.get('marks')
    if marks is None:
        # empty / distinct / zero-weight cases: rebuild the expectation from the program
        import replay
        exp = replay.interpret(case)
        for opi, items in exp.items():
            if opi not in by_op:
                continue
            n = len(items)
            if n == 0:
                st = 'empty'
            elif typ in ('WeightedMean', 'WeightedMeanWithError') and all(w == 0.0 for _, w in items):
                st = 'zero_weight'
            else:
                st = 'distinct'
            judge(typ, st, by_op[opi].kv, table(typ, st, n=n), res, case, variant, 'replay n=%d' % n)
        return
    for opi, st, xh, yh, n in marks:
        if opi in by_op:
            x = common.h2f(xh)
            y = None if yh is None else common.h2f(yh)
            judge(typ, st, by_op[opi].kv, table(typ, st, x=x, y=y, n=n), res, case, variant, 'replay x=%r n=%d' % (x, n))
