"""C05 - Quantile follows the P-square algorithm exactly once five observations are in."""
import itertools
import random
import time

import common
from common import Result, build
import qrun

PROP = 'C05'
RULE = ('(A) step conformance: after every observation from the fifth on the serialised markers (q, n, m, dm) must equal one '
        'P-square step (Jain & Chlamtac 1985, box B) applied to the implementation\'s own previous state: positions exactly, desired '
        'positions exactly, heights to 16 ulp, quantile() == middle marker; the state after five observations must be the sorted '
        'observations at positions 1..5 with the prescribed desired positions. (B) black-box lockstep of quantile() against a '
        'from-scratch transcription of the paper. (C) mirror check Q_p(x) == -Q_(1-p)(-x) on tie-free streams with dyadic p. '
        'Workload: trie-exhaustive streams over {0,1}, {0,1,2} and {-1,0,1,5} (every stream up to the depth in coverage.trie_depth, ties '
        'everywhere) x 7 values of p, plus random / sorted / reversed / zig-zag / trending / heavy-duplicate / two-value / constant / '
        '1e30-magnitude / new-minimum-burst / signed-zero streams. distinct_nontrivial = distinct streams (p, values) with at '
        'least one interior marker height adjusted after the fifth observation.')
ASSUME = ['driver faithfully prints the serde-visible state', 'python floats are IEEE-754 binary64 without fused operations',
          'model: monitors/p2.py, transcribed from the paper']


def shard_stream(desc):
    return qrun.stream_shard(desc)[0]


def shard_trie(desc):
    return qrun.trie_shard(desc)[0]


def shard_ultra(desc):
    return qrun.ultralong_shard(desc)[0]


def trie_work(alphabet, total_depth, ps, plen=2):
    work = []
    for p in ps:
        for prefix in itertools.product(range(len(alphabet)), repeat=plen):
            work.append((p, alphabet, list(prefix), total_depth - plen))
    return work


PS = [0.0, 0.25, 0.5, 0.9, 1.0, 0.1, 1.0 / 3.0]


def plan(tier, seed, variants_quick, variants_thorough):
    if tier == 'quick':
        return {'d2': 14, 'd3': 9, 'd4': 7, 'nstreams': 1000, 'nmirror': 400, 'dense': 300, 'longmax': 5000, 'variants': variants_quick, 'mult': 1}
    return {'d2': 18, 'd3': 12, 'd4': 9, 'nstreams': 20000, 'nmirror': 6000, 'dense': 400, 'longmax': 100000, 'variants': variants_thorough, 'mult': 8}


def run_workload(tier, seed, shard_s, shard_t, shard_u=None):
    cfg = plan(tier, seed, [('release', 1.0), ('dev', 0.3)], [('release', 1.0), ('dev', 0.2)])
    total = Result()
    for variant, frac in cfg['variants']:
        binary = build(variant)
        d3 = cfg['d3'] if frac >= 1 else cfg['d3'] - 2
        d4 = cfg['d4'] if frac >= 1 else cfg['d4'] - 2
        d2 = cfg['d2'] if frac >= 1 else cfg['d2'] - 3
        work = trie_work([0.0, 1.0, 2.0], d3, PS) + trie_work([-1.0, 0.0, 1.0, 5.0], d4, PS) + trie_work([0.0, 1.0], d2, PS, plen=4)
        random.Random(seed).shuffle(work)
        nsh = common.NPROC * (4 if tier == 'thorough' else 1)
        descs = [{'name': 't%s%d' % (variant[0], s), 'variant': variant, 'binary': binary, 'work': work[s::nsh]} for s in range(nsh)]
        total.merge(common.run_shards(shard_t, descs))
        nsh = common.NPROC * cfg['mult']
        descs = [{'name': 's%s%d' % (variant[0], s), 'variant': variant, 'binary': binary,
                  'nstreams': max(1, int(cfg['nstreams'] * frac) // nsh), 'nmirror': max(1, int(cfg['nmirror'] * frac) // nsh),
                  'dense': cfg['dense'], 'longmax': cfg['longmax'], 'nlong': 1 if (s < 4 and variant == 'release') else 0,
                  'verylong': ((2 ** 20 if tier == 'quick' else 2 ** 22) if (s == 0 and variant == 'release') else 0),
                  'seed': seed * 1000003 + s * 7919 + sum(map(ord, variant))} for s in range(nsh)]
        total.merge(common.run_shards(shard_s, descs))
        if shard_u is not None and variant == 'release':
            # streams of 2^25 (quick) / 2^28 (thorough) observations, state dumped around every power of two and of ten
            total.merge(common.run_shards(shard_u, [{'name': 'u%d' % s, 'variant': variant, 'binary': binary,
                                                     'kmax': (25 if tier == 'quick' else 28) - s, 'seed': seed * 101 + s}
                                                    for s in range(2)]))
    return total, cfg


def miri_leg(total, seed):
    from common import Case
    rng = random.Random(seed)
    cases = []
    for i in range(4):
        kind = rng.choice(['random', 'reversed', 'dups', 'newmin_bursts'])
        xs = qrun.make_stream(rng, kind, 40)
        c = Case('m%d' % i, 'Quantile', [rng.choice(PS)])
        c.op('N', 0)
        for x in xs:
            c.op('A', 0, [x])
            c.op('OS', 0)
        cases.append((c, xs, kind))
    logs, report = common.run_miri(''.join(c.text() for c, _, _ in cases), tag='c05')
    if report is not None:
        total.violation(PROP, 'miri:ub-report', 'Miri reported undefined behaviour in Quantile::add: %s' % report[-1500:], None, 'miri')
        return
    J = qrun.Judge('miri')
    for c, xs, kind in cases:
        recs = logs[0][c.id]
        o = [r for r in recs if r.kind == 'o']
        s = [r for r in recs if r.kind == 's']
        prev = None
        for j, (oo, ss) in enumerate(zip(o, s), 1):
            if j >= 5:
                S = qrun.parse_state(ss.kv)
                if j == 5:
                    J.check_init(c.params[0], xs[:5], S, c, 'miri')
                elif prev is not None:
                    J.conformance(c.params[0], prev, xs[j - 1], S, oo.kv, c, 'miri')
                prev = S
    J.r5.counters['miri_steps'] = J.r5.counters.get('steps_checked', 0)
    J.r5.counters.pop('evaluations', None)
    total.merge(J.r5)
    total.count('miri_runs')


def monotone_report(binary):
    """Absolute tracking error on strictly increasing / decreasing streams (reported, not thresholded)."""
    from common import Case, run_driver, val
    rows = []
    cases = []
    for p in (0.25, 0.5, 0.9):
        for name, xs in (('increasing', [float(i) for i in range(1000)]), ('decreasing', [float(-i) for i in range(1000)])):
            c = Case('mono-%s-%s' % (name, p), 'Quantile', [p])
            c.op('N', 0)
            c.op('A', 0, xs)
            c.op('O', 0)
            cases.append((c, p, name, xs))
    logs = run_driver(binary, ''.join(c.text() for c, *_ in cases))
    for c, p, name, xs in cases:
        q = val([r for r in logs[c.id] if r.kind == 'o'][0].kv['quantile'])
        s = sorted(xs)
        exact = s[min(len(s) - 1, max(0, int(__import__('math').ceil(p * len(s))) - 1))]
        rows.append({'p': p, 'stream': name, 'estimate': q, 'exact_sample_quantile': exact, 'abs_error': abs(q - exact)})
    return rows


def run(tier, seed):
    t0 = time.time()
    total = Result()
    cfg = {}
    mono = []
    try:
        total, cfg = run_workload(tier, seed, shard_stream, shard_trie, shard_ultra)
        mono = monotone_report(build('release'))
        if tier == 'thorough':
            miri_leg(total, seed)
    except common.Inconclusive as e:
        total.inconclusive.append(str(e))
    need = {'steps_checked': 10000, 'step_new_min': 100, 'step_new_max': 100, 'step_parabolic': 1000, 'step_linear': 100,
            'step_move_up': 500, 'step_move_down': 500, 'init_states_checked': 500, 'mirror_pairs': 50,
            'lockstep_comparisons': 5000}
    return common.finish(PROP, tier, seed, total, RULE, t0, ASSUME, min_events=need,
                         extra={'builds': [v for v, _ in cfg.get('variants', [])] + (['miri'] if tier == 'thorough' else []),
                                'trie_depth': {'{0,1}': cfg.get('d2'), '{0,1,2}': cfg.get('d3'), '{-1,0,1,5}': cfg.get('d4')}, 'p_values': PS,
                                'monotone_tracking': mono})


def rejudge(case, recs, res, variant, v):
    res.merge(qrun.rejudge_quantile(case, recs, variant).r5)
