"""./check <Cxx> --replay <file>: rebuild the driver from /repo, re-execute the recorded case
program and re-judge it.

Re-judging is done by a generic *multiset interpreter*: the case program is interpreted in
Python, tracking for every register the items it has absorbed (N, D, A, F, FR, E, ER, M, K, V,
P, S are all multiset operations), and every `O r` record is judged by the reference model of
the register's type family (exact moments, weighted / bivariate statistics, min / max, P-square
reference run, histogram model).  Properties that compare logs bit-for-bit (C11, C18, C20)
re-run their own comparison from the marks stored in the replay file."""
import json
import sys

import common
from common import Case, Result, build, run_driver, val, h2f, PANIC
import exact as ex
import momentcheck as mc
import pairs
import p2
import histmodel as hm

MOMENT = set(mc.ORDER) - {'WeightedMeanWithError'}
PAIR = {'WeightedMean', 'WeightedMeanWithError', 'Covariance'}


def floats(toks):
    return [h2f(t) for t in toks]


def interpret(case):
    """-> {op index of O/OS: list of items absorbed by that register at that point};
    for histograms: {op index: Hist model or None}"""
    typ = case.type
    bt = mc.base_type(typ)
    arity = 2 if bt in PAIR else 1
    regs = {}
    out = {}
    is_hist = typ.startswith(('H', 'CH'))
    L = None
    if is_hist:
        L = 10 if typ == 'Histogram10' else int(typ.lstrip('CH'))
    for i, line in enumerate(case.ops):
        t = line.split()
        code = t[0]
        if is_hist:
            if code == 'HR':
                r = hm.from_ranges(floats(t[2:]), L)
                if r[0] == 'ok':
                    regs[t[1]] = r[1]
            elif code == 'HW':
                regs[t[1]] = None      # edges decided by the implementation; skip
            elif code == 'HA' and regs.get(t[1]) is not None:
                for x in floats(t[2:]):
                    regs[t[1]].add(x)
            elif code in ('M', 'H+') and regs.get(t[1]) is not None and regs.get(t[2]) is not None:
                other = regs[t[2]].clone()
                regs[t[1]].merge(other)
            elif code == 'H*' and regs.get(t[1]) is not None:
                regs[t[1]].mul(int(t[2]))
            elif code == 'HZ' and regs.get(t[1]) is not None:
                regs[t[1]].reset()
            elif code in ('K', 'KF'):
                regs[t[1]] = regs[t[2]].clone() if regs.get(t[2]) is not None else None
            elif code == 'O':
                out[i] = regs[t[1]].clone() if regs.get(t[1]) is not None else None
            continue
        if code in ('N', 'D', 'Q'):
            regs[t[1]] = []
        elif code == 'V':
            regs[t[1]] = [h2f(t[2])]
        elif code in ('A', 'AT', 'E', 'ER'):
            v = floats(t[2:])
            items = [tuple(v[j:j + arity]) if arity == 2 else v[j] for j in range(0, len(v), arity)]
            regs.setdefault(t[1], []).extend(items)
        elif code in ('F', 'FR'):
            v = floats(t[2:])
            regs[t[1]] = [tuple(v[j:j + arity]) if arity == 2 else v[j] for j in range(0, len(v), arity)]
        elif code == 'P':
            import c19
            regs[t[1]] = [x for x in floats(t[8:]) if c19.keep(x, t[7] if t[7].startswith('t') else int(t[7]))]
        elif code == 'M':
            regs.setdefault(t[1], []).extend(list(regs.get(t[2], [])))
        elif code in ('K', 'KF'):
            regs[t[1]] = list(regs.get(t[2], []))
        elif code in ('O', 'OS'):
            out[i] = list(regs.get(t[1], []))
    return out


def generic_rejudge(prop, case, recs, res, variant):
    typ = case.type
    bt = mc.base_type(typ)
    exp = interpret(case)
    for r in recs:
        if r.kind in ('p', 'e', 'd'):
            print('  note: op %d -> %s %s' % (r.op, r.kind, r.rest))
    for r in recs:
        if r.kind != 'o' or r.op not in exp:
            continue
        items = exp[r.op]
        ctx = 'at op %d' % r.op
        if typ.startswith(('H', 'CH')):
            if items is None:
                continue
            v = []
            hm.compare_obs(r.kv, items, v)
            for sig, msg in v:
                res.violation(prop, 'Histogram:%s' % sig, msg, case, variant)
            res.count('evaluations')
        elif bt in MOMENT:
            mc.judge(prop, typ, items, r.kv, res, case, variant, context=ctx)
        elif bt in ('Min', 'Max'):
            v = [x for x in items if x == x]
            import math
            want = (min(v) if v else math.inf) if bt == 'Min' else (max(v) if v else -math.inf)
            got = val(r.kv['min' if bt == 'Min' else 'max'])
            res.count('evaluations')
            if got is PANIC or not (got == want):
                res.violation(prop, '%s:extreme' % bt, '%s = %r, expected %r %s' % (bt, got, want, ctx), case, variant)
        elif bt in ('WeightedMean', 'WeightedMeanWithError'):
            o = pairs.WeightedOracle([a for a, _ in items], [b for _, b in items])
            pairs.judge_weighted(prop, bt, o, 0, len(items), r.kv, res, case, variant, context=ctx)
        elif bt == 'Covariance':
            o = pairs.CovOracle([a for a, _ in items], [b for _, b in items])
            pairs.judge_cov(prop, o, 0, len(items), r.kv, res, case, variant, context=ctx)
        elif bt == 'Quantile':
            p = case.params[0] if case.params else 0.5
            res.count('evaluations')
            qv = val(r.kv['quantile'])
            n = len(items)
            if n == 0:
                continue
            if n < 5:
                values, mids = p2.exact_small_quantile(p, items)
                if qv is PANIC or not p2.small_quantile_ok(qv, values, mids):
                    res.violation(prop, 'Quantile.quantile:small-sample', 'quantile() = %r for %r (p=%r)' % (qv, items, p), case, variant)
            else:
                ref = p2.run_reference(p, items)
                S, near = ref[n - 1]
                import math
                M = max(abs(x) for x in items)
                tol = (64 + n) * math.ulp(max(M, 5e-324)) + 1e-12 * (max(items) - min(items))
                if not near and (qv is PANIC or not (abs(qv - S.q[2]) <= tol)):
                    res.violation(prop, 'Quantile.quantile:lockstep', 'quantile() = %r, P-square reference %r after %d observations (p=%r)' % (
                        qv, S.q[2], n, p), case, variant)


def replay(mod, path):
    v = json.load(open(path))
    prop = v.get('property', getattr(mod, 'PROP', '?'))
    print('replaying %s: %s' % (path, v.get('signature')))
    print('  recorded: %s' % v.get('message'))
    if not v.get('case'):
        print('INCONCLUSIVE: this finding carries no single case program (cross-case comparison); re-run the check itself')
        return 2
    case = Case.from_json(v['case'])
    variant = v.get('variant', 'release')
    if variant == 'miri':
        variant = 'release'
    try:
        binary = build(variant)
        logs = run_driver(binary, case.text())
    except common.Inconclusive as e:
        print('INCONCLUSIVE: %s' % e)
        return 2
    recs = logs.get(case.id, [])
    print('  program (%s, %d ops) re-executed on a driver rebuilt from /repo (%s build); %d records' % (case.type, len(case.ops), variant, len(recs)))
    for r in recs[:12]:
        print('    ' + r.brief()[:220])
    res = Result()
    if hasattr(mod, 'rejudge'):
        mod.rejudge(case, recs, res, variant, v)
    else:
        generic_rejudge(prop, case, recs, res, variant)
    if not res.violations and res.counters.get('evaluations', 0) == 0 and hasattr(mod, 'rejudge'):
        # the module's own re-judge found nothing to look at in this program (e.g. a cross-case comparison such as the
        # C05 mirror check, or observations without state dumps): fall back to the generic multiset interpreter
        generic_rejudge(prop, case, recs, res, variant)
    if res.violations:
        print('VIOLATION property=%s replay=%s' % (prop, path))
        for x in res.violations[:5]:
            print('  signature=%s' % x['signature'])
            print('  %s' % x['message'])
        return 1
    if res.counters.get('evaluations', 0) == 0:
        print('INCONCLUSIVE: the case was re-executed but contains nothing this replay can re-judge on its own; re-run ./check %s' % prop)
        return 2
    print('%s: the recorded violation does not reproduce on the current tree (%d observations re-judged)' % (prop, res.counters.get('evaluations', 0)))
    return 0
