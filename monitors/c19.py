"""C19 - parallel collection gives the sequential answer under every schedule."""
import math
import random
import time

import common
from common import Case, Result, build, run_driver, val, PANIC, same_bits
import exact as ex
import gen
import momentcheck as mc

PROP = 'C19'
TYPES = ['Mean', 'Variance', 'Skewness', 'Kurtosis', 'Min', 'Max', 'Moments4', 'M6']
PROBES = ['ProbeMean', 'ProbeVariance', 'ProbeSkewness', 'ProbeKurtosis', 'ProbeMin', 'ProbeMax', 'ProbeMoments4', 'ProbeM6']
RULE = ('(1) result monitor: f64 and &f64 parallel iterators are collected into Mean, Variance, Skewness, Kurtosis, Min, Max, '
        'Moments4 and a define_moments! order-6 type inside explicit ThreadPoolBuilder pools of 1,2,3,4,8,16 threads, with '
        'with_min_len / with_max_len in {unset,1,2,3,7,64,n}, from a slice or from iter().par_bridge() (an unindexed source that hands items out in arbitrary order), optionally through a filter stage that drops a pseudo-random third of the items (so that fold leaves can be empty), with a seeded map stage that yields / spins on a pseudo-random subset '
        'of items (delay injection between the items of a fold), each configuration repeated; len must be exact, min / max exact, '
        'every other statistic inside the section-2 envelope of the exact statistics; besides random data, constant, period-2, period-4 and mirror-symmetric inputs (partial results with bit-identical means meet in the reduction). (2) schedule monitor: Probe<T> wraps the real '
        'estimator and is given the crate\'s own exported impl_from_par_iterator!; it checks online that every fold leaf absorbs a '
        'contiguous ascending index run, every merge joins adjacent runs in order (or an empty side), every item is absorbed exactly '
        'once, and records the split / merge tree; the monitor re-executes the recorded tree sequentially with the real type and '
        'requires the parallel result to be bit-identical to that replay. (3, thorough) the same on a ThreadSanitizer build (real threads, data-race detection) and under Miri with many seeds (each seed '
        'a different deterministic schedule, data-race detector on). distinct_nontrivial = distinct (type, data, pool, split limits, '
        'mode, recorded tree) executions with n >= 2.')
ASSUME = ['CPython int/Fraction arithmetic is exact', 'driver faithfully prints accessor bit patterns',
          'envelope constants of DESIGN.md section 2', 'the schedules observed are those rayon (and Miri) actually produced, not all schedules']


M64 = (1 << 64) - 1


def keep(x, seed):
    """Mirror of harness/src/est.rs::keep / keep2 - the filter predicate of the P op.  `seed` is an int (hash filter,
    0 = none) or a string 't<hex>' (threshold filter: keep x >= threshold)."""
    if isinstance(seed, str):
        return not (x < common.h2f(seed[1:]))
    if seed == 0:
        return True
    h = common.bits(x) ^ ((seed * 0x9E3779B97F4A7C15) & M64)
    h ^= h >> 33
    h = (h * 0xff51afd7ed558ccd) & M64
    h ^= h >> 33
    return h % 3 != 0


# ------------------------------------------------------------------ recorded trees

def parse_tree(s):
    """'((E_L0-2)_(E_L2-5))' -> nested: 'E' | ('L', lo, hi) | ('M', a, b)"""
    pos = 0

    def node():
        nonlocal pos
        ch = s[pos]
        if ch == 'E':
            pos += 1
            return 'E'
        if ch == 'X':
            j = pos + 1
            while j < len(s) and s[j].isdigit():
                j += 1
            cnt = int(s[pos + 1:j])
            pos = j
            return ('X', cnt)
        if ch == 'L':
            j = pos + 1
            while j < len(s) and (s[j].isdigit() or s[j] == '-'):
                j += 1
            lo, hi = s[pos + 1:j].split('-')
            pos = j
            return ('L', int(lo), int(hi))
        if ch == '(':
            pos += 1
            a = node()
            assert s[pos] == '_', s[pos:pos + 10]
            pos += 1
            b = node()
            assert s[pos] == ')'
            pos += 1
            return ('M', a, b)
        raise ValueError('bad tree at %d: %s' % (pos, s[pos:pos + 20]))
    t = node()
    if pos != len(s):
        raise ValueError('trailing tree text')
    return t


def has_opaque(t):
    if t == 'E':
        return False
    if t[0] == 'X':
        return True
    if t[0] == 'L':
        return False
    return has_opaque(t[1]) or has_opaque(t[2])


def leaves(t, out):
    if t == 'E':
        return
    if t[0] == 'X':
        out.append((None, t[1]))
        return
    if t[0] == 'L':
        out.append((t[1], t[2]))
        return
    leaves(t[1], out)
    leaves(t[2], out)


def shape(t):
    """Shape signature: leaf sizes and structure."""
    if t == 'E':
        return 'E'
    if t[0] == 'X':
        return 'x%d' % t[1]
    if t[0] == 'L':
        return str(t[2] - t[1])
    return '(%s %s)' % (shape(t[1]), shape(t[2]))


def depth(t):
    if t == 'E' or t[0] in 'LX':
        return 1
    return 1 + max(depth(t[1]), depth(t[2]) + 1)


def replay_case(cid, typ, data, tree):
    """Sequential re-execution of a recorded tree with the real estimator type."""
    c = Case(cid, typ)
    free = list(range(31, -1, -1))

    class TooDeep(Exception):
        pass

    def ev(t):
        if not free:
            raise TooDeep()
        if t == 'E':
            r = free.pop()
            c.op('N', r)
            return r
        if t[0] == 'L':
            r = free.pop()
            c.op('N', r)
            c.op('A', r, data[t[1]:t[2]])
            return r
        ra = ev(t[1])
        rb = ev(t[2])
        c.op('M', ra, rb)
        free.append(rb)
        return ra
    try:
        r = ev(tree)
    except TooDeep:
        return None
    c.op('O', r)
    return c


# ------------------------------------------------------------------ judging

def judge_result(typ, xs, kv, res, c, variant, ctx, memo=None, memo_key=None):
    bt = mc.base_type(typ)
    if bt in ('Min', 'Max'):
        v = [x for x in xs if x == x]
        want = (min(v) if v else math.inf) if bt == 'Min' else (max(v) if v else -math.inf)
        got = val(kv['min' if bt == 'Min' else 'max'])
        res.count('evaluations')
        if got is PANIC or not (got == want):
            res.violation(PROP, '%s:extreme' % bt, '%s collected in parallel = %r, sequential extreme %r %s' % (bt, got, want, ctx), c, variant)
        return len(xs) >= 2
    return mc.judge(PROP, typ, xs, kv, res, c, variant, context=ctx, memo=memo, memo_key=memo_key,
                    only=(['mean'] + ['cm%d' % p for p in range(mc.ORDER[bt] + 1)] + ['sm%d' % p for p in range(mc.ORDER[bt] + 1)] + ['sample_variance'])
                    if bt in mc.MOMENT_TYPES else None)


def configs(rng, n):
    threads = rng.choice([1, 2, 3, 4, 8, 16])
    lims = [0, 1, 2, 3, 7, 64, max(n, 1)]
    lo = rng.choice(lims)
    hi = rng.choice(lims)
    if lo and hi and hi < lo:
        lo, hi = hi, lo
    mode = rng.choice(['v', 'r', 'v', 'r', 'b', 'br'])
    dseed = rng.choice([0, rng.randint(1, 10 ** 6), rng.randint(1, 10 ** 6)])
    fseed = rng.choice([0, 0, rng.randint(1, 10 ** 6)])
    return threads, lo, hi, mode, dseed, fseed


def gen_data(rng, n, distinct=False):
    if n == 0:
        return []
    for _ in range(20):
        xs, meta = gen.sequence(rng, n=n, scale_range=(-20, 20), max_offset_exp=9,
                                shape=rng.choice(['normal', 'exp_pos', 'exp_neg', 'lognormal', 'bimodal', 'arith']) if distinct else None)
        if not distinct or len(set(common.f2h(x) for x in xs)) == len(xs):
            return xs
    return [float(i) + rng.random() for i in range(n)]


def shard(desc):
    rng = random.Random(desc['seed'])
    res = Result()
    variant = desc['variant']
    cases, plan = [], []
    k = 0
    memo = {}
    for n in desc['lengths']:
        for rep_data in range(desc['data_per_len']):
            xs = gen_data(rng, n, distinct=True)
            for rep in range(desc['cfg_per_data']):
                typ = rng.choice(TYPES)
                use_probe = rng.random() < 0.5 and n <= desc.get('probe_max_n', 20000)
                t = ('Probe' + typ) if use_probe else typ
                th, lo, hi, mode, dseed, fseed = configs(rng, n)
                c = Case('%s-%d' % (desc['name'], k), t, meta={'threads': th, 'min_len': lo, 'max_len': hi, 'mode': mode,
                                                               'delay_seed': dseed, 'filter_seed': fseed, 'n': n})
                k += 1
                marks = []
                for r_ in range(desc['repeats']):
                    c.op('P', r_, th, lo, hi, mode, dseed, fseed, xs)
                    marks.append(c.op('O', r_))
                kept = [x for x in xs if keep(x, fseed)]
                # sequential reference in the same case
                c.op('N', 20)
                if kept and not use_probe:
                    c.op('A', 20, kept)
                seq_mark = c.op('O', 20) if not use_probe else None
                cases.append(c)
                plan.append((c, t, typ, kept, marks, seq_mark, (id(xs), fseed)))
    for n in desc.get('tie_lengths', []):
        # constant, periodic and symmetric inputs: partial results whose means are bit-identical meet in the reduction
        # (generic random data never produces that); schedule probe off (it needs distinct values)
        for kind in ('constant', 'period2', 'period4', 'symmetric', 'specials'):
            a, b = rng.choice([1.5, -2.25, 1e6 + 0.125, 3.0e-5]), rng.choice([0.5, 7.0, -1.0])
            if kind == 'specials':
                # Min / Max only: infinities (the identity elements of the reduction), NaN, signed zeros among ordinary values
                pool = rng.choice([[math.inf, 1.0, 2.0, 3.0], [-math.inf, -1.0, 5.0], [float('nan'), 1.0, -4.0],
                                   [float('nan')], [math.inf, -math.inf, 0.0, -0.0, float('nan'), 2.5]])
                xs = [rng.choice(pool) for _ in range(n)]
                for typ in ('Min', 'Max'):
                    th = rng.choice([1, 2, 3, 4])
                    lo, hi = rng.choice([(0, 0), (1, 1), (2, 2)])
                    mode = rng.choice(['v', 'r'])
                    c = Case('%s-%d' % (desc['name'], k), typ, meta={'threads': th, 'min_len': lo, 'max_len': hi, 'mode': mode,
                                                                   'delay_seed': 0, 'filter_seed': 0, 'n': len(xs), 'ties': kind})
                    k += 1
                    marks = []
                    for r_ in range(2):
                        c.op('P', r_, th, lo, hi, mode, 0, 0, xs)
                        marks.append(c.op('O', r_))
                    c.op('N', 20)
                    c.op('A', 20, xs)
                    seq_mark = c.op('O', 20)
                    cases.append(c)
                    plan.append((c, typ, typ, xs, marks, seq_mark, (id(xs), 0)))
                    res.count('tie_collects', len(marks))
                    res.count('special_value_collects', len(marks))
                continue
            if kind == 'constant':
                xs = [a] * n
            elif kind == 'period2':
                xs = [a if i % 2 == 0 else a + b for i in range(n)]
            elif kind == 'period4':
                xs = [a + b * (i % 4) for i in range(n)]
            else:
                half = [a + b * rng.randint(-8, 8) for _ in range(n // 2)]
                xs = half + half[::-1]
            for typ in rng.sample(TYPES, min(4, len(TYPES))):
                th = rng.choice([2, 3, 4, 8])
                lo, hi = rng.choice([(0, 0), (1, 1), (2, 2), (4, 4), (0, 8), (8, 0)])
                mode = rng.choice(['v', 'r'])
                c = Case('%s-%d' % (desc['name'], k), typ, meta={'threads': th, 'min_len': lo, 'max_len': hi, 'mode': mode,
                                                               'delay_seed': 0, 'filter_seed': 0, 'n': len(xs), 'ties': kind})
                k += 1
                marks = []
                for r_ in range(max(2, desc['repeats'])):
                    c.op('P', r_, th, lo, hi, mode, 0, 0, xs)
                    marks.append(c.op('O', r_))
                c.op('N', 20)
                if xs:
                    c.op('A', 20, xs)
                seq_mark = c.op('O', 20)
                cases.append(c)
                plan.append((c, typ, typ, xs, marks, seq_mark, (id(xs), 0)))
                res.count('tie_collects', len(marks))
    for n, typ, use_probe in desc.get('ramps', []):
        # a long ascending ramp: (a) unfiltered - the last reduction joins two halves of > 2^16 items with very different
        # means; (b) with a threshold filter that drops all but one item of the first half - a tiny left partial result
        # meets a right one > 65536 times larger
        xs = [float(i) * 0.37 + rng.random() * 0.1 for i in range(n)]
        for fseed in (0, 't' + common.f2h(xs[n // 2 - 1])):
            t = ('Probe' + typ) if use_probe else typ
            th = rng.choice([2, 4, 16])
            c = Case('%s-%d' % (desc['name'], k), t, meta={'threads': th, 'min_len': 0, 'max_len': 0, 'mode': 'r', 'delay_seed': 0,
                                                           'filter_seed': fseed, 'n': n})
            k += 1
            c.op('P', 0, th, 0, 0, 'r', 0, fseed, xs)
            marks = [c.op('O', 0)]
            kept = [x for x in xs if keep(x, fseed)]
            c.op('N', 20)
            seq_mark = None
            if not use_probe:
                c.op('A', 20, kept)
                seq_mark = c.op('O', 20)
            cases.append(c)
            plan.append((c, t, typ, kept, marks, seq_mark, (id(xs), str(fseed))))
            res.count('ramp_collects')
    logs = run_driver(desc['binary'], ''.join(c.text() for c in cases), timeout=3600)
    replays = []
    for c, t, typ, xs, marks, seq_mark, dkey in plan:
        recs = logs.get(c.id)
        if recs is None:
            res.inconclusive.append('case %s missing' % c.id)
            continue
        for r in recs:
            if r.kind in ('p', 'e', 'd'):
                res.violation(PROP, '%s:%s' % (typ, 'panic' if r.kind == 'p' else 'harness'),
                              '%s: op %d -> %s %s (config %r)' % (t, r.op, r.kind, r.rest, c.meta), c, variant)
        by_op = {r.op: r for r in recs if r.kind == 'o'}
        n = len(xs)
        ctx = '(n=%d%s, %d threads, min_len=%s max_len=%s, by %s, delay seed %d)' % (
            n, (' kept of %d by a filter stage' % c.meta['n']) if c.meta['filter_seed'] else '', c.meta['threads'],
            c.meta['min_len'] or '-', c.meta['max_len'] or '-', ('reference' if c.meta['mode'] in ('r', 'br') else 'value') + (' via par_bridge' if c.meta['mode'] in ('b', 'br') else ''), c.meta['delay_seed'])
        if c.meta['filter_seed']:
            res.count('collects_with_filter_stage', len(marks))
        results = set()
        for opi in marks:
            r = by_op.get(opi)
            if r is None:
                continue
            res.count('parallel_collects')
            res.count('collects_threads_%d' % c.meta['threads'])
            res.count('collects_by_%s' % ('ref' if c.meta['mode'] in ('r', 'br') else 'value'))
            if c.meta['mode'] in ('b', 'br'):
                res.count('collects_from_par_bridge')
            if c.meta['delay_seed']:
                res.count('collects_with_delay_injection')
            nt = judge_result(t, xs, r.kv, res, c, variant, ctx, memo, dkey)
            results.add(tuple(v for k_, v in sorted(r.kv.items()) if not k_.startswith('probe_')))
            if t.startswith('Probe'):
                kv = r.kv
                res.count('probe_collects')
                bad = val(kv['probe_bad'])
                if bad != '-':
                    res.violation(PROP, 'probe:%s' % bad.split(':')[0], 'schedule probe %s: %s %s' % (t, bad[:300], ctx), c, variant)
                    continue
                cnt = val(kv['probe_count'])
                if cnt != n:
                    res.violation(PROP, 'probe:conservation', 'probe absorbed %d items, input has %d %s' % (cnt, n, ctx), c, variant)
                    continue
                try:
                    tree = parse_tree(val(kv['probe_tree']))
                except Exception as e:
                    res.inconclusive.append('cannot parse recorded tree: %s' % e)
                    continue
                rng_tok = val(kv['probe_ranges'])
                want_ranges = '0-%d' % n if n > 0 else '-'
                if rng_tok != want_ranges:
                    res.violation(PROP, 'probe:exactly-once', 'the items absorbed are %s, not each of 0..%d exactly once %s' % (rng_tok, n, ctx), c, variant)
                    continue
                if val(kv['probe_nonadjacent']):
                    res.count('collects_with_nonadjacent_merges')
                lv = []
                leaves(tree, lv)
                if sum((b - a) if a is not None else b for a, b in lv) != n:
                    res.violation(PROP, 'probe:exactly-once', 'fold leaves %r do not add up to %d items %s' % (lv[:12], n, ctx), c, variant)
                    continue
                sh = shape(tree)
                if '(E E)' in sh:
                    res.count('trees_with_empty_into_empty_merge')
                res.add_set('distinct_merge_trees', (n, sh))
                res.count('leaves_total', len(lv))
                if n >= 2:
                    res.distinct.add(hash((t, dkey, c.meta['threads'], c.meta['min_len'], c.meta['max_len'], c.meta['mode'], sh)))
                if len(lv) >= 2:
                    res.count('collects_with_multiple_leaves')
                if has_opaque(tree):
                    res.count('replay_skipped_unordered_leaf')
                elif len(replays) < desc.get('max_replays', 400) or rng.random() < 0.05:
                    rc = replay_case('%s-rp%d' % (desc['name'], len(replays)), typ, xs, tree)
                    if rc is not None:
                        replays.append((rc, c, r.kv, typ, ctx, sh))
                    else:
                        res.count('replay_skipped_too_deep')
                if len(res.samples) < 2 and 3 <= n <= 17 and len(lv) >= 2:
                    res.sample({'type': t, 'config': c.meta, 'recorded_tree': val(kv['probe_tree']),
                                'observation': {k_: common.show(v) for k_, v in kv.items() if not k_.startswith('probe_tree')}})
            elif nt and n >= 2:
                res.distinct.add(hash((t, dkey, c.meta['threads'], c.meta['min_len'], c.meta['max_len'], c.meta['mode'], c.meta['delay_seed'])))
        if len(results) > 1:
            res.count('configs_with_schedule_dependent_rounding')
        if seq_mark is not None and seq_mark in by_op:
            judge_result(typ, xs, by_op[seq_mark].kv, res, c, variant, '(sequential reference) ' + ctx, memo, dkey)
    if plan:
        res.ensure_sample(plan[0][0])
    # phase 2: sequential replay of recorded trees must be bit-identical
    if replays:
        rlogs = run_driver(desc['binary'], ''.join(rc.text() for rc, *_ in replays), timeout=3600)
        for rc, c, kv, typ, ctx, sh in replays:
            rr = rlogs.get(rc.id)
            o = [r for r in (rr or []) if r.kind == 'o']
            if not o:
                res.inconclusive.append('replay case %s produced no observation' % rc.id)
                continue
            res.count('tree_replays')
            for name, tok in o[0].kv.items():
                if not same_bits(tok, kv[name]):
                    res.violation(PROP, '%s:replay-mismatch' % typ,
                                  '%s collected in parallel reports %s = %s, but re-executing the recorded merge tree %s sequentially gives %s %s' % (
                                      typ, name, common.show(kv[name]), sh[:120], common.show(tok), ctx), c, variant,
                                  detail={'replay_program': rc.ops[:60]})
                    break
    return res


def miri_leg(seed, nseeds, res):
    rng = random.Random(seed)
    cases = []
    k = 0
    for n in (0, 1, 2, 5, 17, 40):
        xs = gen_data(rng, n, distinct=True)
        for typ in rng.sample(TYPES, 3):
            t = 'Probe' + typ
            th = rng.choice([2, 3, 4])
            lo, hi = rng.choice([(0, 0), (1, 1), (0, 3), (2, 7)])
            c = Case('m-%d' % k, t, meta={'threads': th, 'min_len': lo, 'max_len': hi, 'mode': 'v', 'delay_seed': 7, 'n': n})
            k += 1
            fseed = rng.choice([0, 5])
            c.op('P', 0, th, lo, hi, rng.choice(['v', 'r']), 7, fseed, xs)
            c.op('O', 0)
            cases.append((c, t, typ, [x for x in xs if keep(x, fseed)]))
    text = ''.join(c.text() for c, *_ in cases)
    logs, report = common.run_miri(text, seeds=(0, nseeds), timeout=7200, tag='c19')
    if report is not None:
        res.violation(PROP, 'miri:ub-or-data-race', 'Miri reported undefined behaviour or a data race during a parallel collect: %s' % report[-2000:], None, 'miri')
        return
    res.count('miri_seeds_run', len(logs))
    native = build('release')
    replays = []
    for si, log in enumerate(logs):
        for c, t, typ, xs in cases:
            recs = log.get(c.id)
            if not recs:
                continue
            for r in recs:
                if r.kind == 'p':
                    res.violation(PROP, '%s:panic' % typ, 'under Miri: %s' % r.rest, c, 'miri')
            o = [r for r in recs if r.kind == 'o']
            if not o:
                continue
            kv = o[0].kv
            res.count('miri_collects')
            ctx = '(Miri schedule seed index %d, n=%d, %d threads)' % (si, len(xs), c.meta['threads'])
            judge_result(t, xs, kv, res, c, 'miri', ctx)
            bad = val(kv['probe_bad'])
            if bad != '-':
                res.violation(PROP, 'probe:%s' % bad.split(':')[0], 'schedule probe under Miri: %s %s' % (bad[:300], ctx), c, 'miri')
                continue
            if val(kv['probe_count']) != len(xs):
                res.violation(PROP, 'probe:conservation', 'probe absorbed %r items of %d %s' % (val(kv['probe_count']), len(xs), ctx), c, 'miri')
                continue
            if val(kv['probe_ranges']) != ('0-%d' % len(xs) if xs else '-'):
                res.violation(PROP, 'probe:exactly-once', 'items absorbed %s of 0..%d %s' % (val(kv['probe_ranges']), len(xs), ctx), c, 'miri')
                continue
            tree = parse_tree(val(kv['probe_tree']))
            res.add_set('distinct_merge_trees_miri', (len(xs), shape(tree)))
            rc = None if has_opaque(tree) else replay_case('mr-%d-%s' % (si, c.id), typ, xs, tree)
            if rc is not None:
                replays.append((rc, c, kv, typ, ctx))
    if replays:
        rlogs = run_driver(native, ''.join(rc.text() for rc, *_ in replays))
        for rc, c, kv, typ, ctx in replays:
            o = [r for r in rlogs.get(rc.id, []) if r.kind == 'o']
            if not o:
                continue
            res.count('miri_tree_replays')
            for name, tok in o[0].kv.items():
                # libm-free accessors only: Miri may perturb non-IEEE-exact intrinsics
                if name in ('len', 'is_empty', 'mean', 'min', 'max', 'sample_variance', 'population_variance') or name.startswith('cm'):
                    if not same_bits(tok, kv[name]):
                        res.violation(PROP, '%s:replay-mismatch' % typ,
                                      'under Miri %s reports %s = %s but the recorded tree replays to %s %s' % (
                                          typ, name, common.show(kv[name]), common.show(tok), ctx), c, 'miri')
                        break


def tsan_leg(seed, res):
    """The same kind of workload on a ThreadSanitizer build of the driver (std rebuilt with -Zsanitizer=thread): real threads,
    many more schedules than the Miri leg, data-race detection on.  The results are judged as usual."""
    binary = build('tsan')
    rng = random.Random(seed + 99)
    cases, plan = [], []
    for i in range(400):
        n = rng.choice([0, 1, 2, 5, 17, 64, 200, 1000, 5000])
        xs = gen_data(rng, n, distinct=True)
        typ = rng.choice(TYPES)
        t = rng.choice([typ, 'Probe' + typ])
        th, lo, hi, mode, dseed, fseed = configs(rng, n)
        c = Case('ts%d' % i, t, meta={'threads': th, 'min_len': lo, 'max_len': hi, 'mode': mode, 'delay_seed': dseed, 'filter_seed': fseed, 'n': n})
        marks = []
        for r_ in range(3):
            c.op('P', r_, th, lo, hi, mode, dseed, fseed, xs)
            marks.append(c.op('O', r_))
        cases.append(c)
        plan.append((c, t, [x for x in xs if keep(x, fseed)], marks))
    try:
        logs = common.run_driver(binary, ''.join(c.text() for c in cases), timeout=3600, sanitizer=True)
    except common.SanitizerReport as e:
        res.violation(PROP, 'tsan:data-race', 'ThreadSanitizer reported during parallel collects: %s' % str(e)[:3000], None, 'tsan')
        return
    for c, t, kept, marks in plan:
        recs = logs.get(c.id, [])
        by_op = {r.op: r for r in recs if r.kind == 'o'}
        for r in recs:
            if r.kind in ('p', 'e', 'd'):
                res.violation(PROP, '%s:%s' % (mc.base_type(t), 'panic' if r.kind == 'p' else 'harness'), 'under TSan: op %d -> %s' % (r.op, r.rest), c, 'tsan')
        for opi in marks:
            if opi in by_op:
                judge_result(t, kept, by_op[opi].kv, res, c, 'tsan', '(ThreadSanitizer build, %d threads)' % c.meta['threads'])
                res.count('tsan_collects')
                if t.startswith('Probe') and val(by_op[opi].kv['probe_bad']) != '-':
                    res.violation(PROP, 'probe:%s' % val(by_op[opi].kv['probe_bad']).split(':')[0], 'schedule probe under TSan: %s' % val(by_op[opi].kv['probe_bad'])[:200], c, 'tsan')
    res.count('tsan_runs')


def run(tier, seed):
    t0 = time.time()
    total = Result()
    if tier == 'quick':
        lengths = [0, 1, 2, 3, 5, 17, 64, 1000]
        cfg = {'data_per_len': 2, 'cfg_per_data': 5, 'repeats': 4}
        variants = [('release', 1.0), ('dev', 0.5)]
        big = [20000]
    else:
        lengths = [0, 1, 2, 3, 5, 17, 64, 200, 1000, 4000]
        cfg = {'data_per_len': 3, 'cfg_per_data': 8, 'repeats': 6}
        variants = [('release', 1.0), ('dev', 0.3)]
        big = [100000, 1000000]
    try:
        for variant, frac in variants:
            binary = build(variant)
            # rayon pools are process-wide resources: few driver processes at a time, each with its own pools
            nsh = 8 if tier == 'quick' else 32
            if frac < 1:
                nsh = max(2, int(nsh * frac))
            descs = []
            for s in range(nsh):
                d = {'name': '%s%d' % (variant[0], s), 'variant': variant, 'binary': binary, 'lengths': lengths,
                     'seed': seed * 1000003 + s * 7919 + sum(map(ord, variant))}
                d.update(cfg)
                if s < 4:
                    d['tie_lengths'] = [[2, 8, 64], [3, 16, 1024], [4, 100, 4096], [6, 32, 512]][s]
                descs.append(d)
            for i, (tname, pr) in enumerate([('Kurtosis', False), ('Mean', True), ('M6', False), ('Variance', True)][:(4 if tier == 'thorough' else 2)]):
                descs.append({'name': 'ramp%s%d' % (variant[0], i), 'variant': variant, 'binary': binary, 'lengths': [], 'data_per_len': 0,
                              'cfg_per_data': 0, 'repeats': 0, 'ramps': [(140000 if tier == 'quick' else 300000, tname, pr)], 'seed': seed * 13 + i})
            if variant == 'release':
                for i, n in enumerate(big):
                    descs.append({'name': 'big%d' % i, 'variant': variant, 'binary': binary, 'lengths': [n], 'data_per_len': 1,
                                  'cfg_per_data': 2, 'repeats': 2, 'probe_max_n': 0, 'seed': seed * 31 + i})
            total.merge(common.run_shards(shard, descs, procs=4))
        if tier == 'thorough':
            tsan_leg(seed, total)
            miri_leg(seed, 16, total)
    except common.Inconclusive as e:
        total.inconclusive.append(str(e))
    need = {'tie_collects': 200, 'collects_from_par_bridge': 50, 'ramp_collects': 4, 'parallel_collects': 300, 'probe_collects': 100, 'tree_replays': 50, 'collects_with_multiple_leaves': 50,
            'collects_with_filter_stage': 50, 'trees_with_empty_into_empty_merge': 5,
            'collects_with_delay_injection': 50, 'collects_by_ref': 50, 'collects_by_value': 50, 'distinct_merge_trees': 20}
    if tier == 'thorough':
        need['miri_collects'] = 50
        need['tsan_collects'] = 500
    return common.finish(PROP, tier, seed, total, RULE, t0, ASSUME, min_events=need,
                         extra={'builds': [v for v, _ in variants] + (['tsan', 'miri'] if tier == 'thorough' else []), 'lengths': lengths + big})
