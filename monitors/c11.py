"""C11 - the empty estimator is an exact identity of merge and lengths add exactly."""
import itertools
import random
import time

import common
from common import Case, Result, build, run_driver, val, same_bits, f2h
import gen

PROP = 'C11'
EST_TYPES = ['Mean', 'Variance', 'Skewness', 'Kurtosis', 'Moments4', 'M6', 'M10', 'Min', 'Max',
             'WeightedMean', 'WeightedMeanWithError', 'Covariance']
HIST_TYPES = ['H3', 'H10', 'H100']
CONST_HIST_TYPES = ['CH3', 'CH10']
ARITY = {'WeightedMean': 2, 'WeightedMeanWithError': 2, 'Covariance': 2}
HAS_LEN = {'Mean', 'Variance', 'Skewness', 'Kurtosis', 'Moments4', 'M6', 'M10', 'WeightedMeanWithError', 'Covariance'}
RULE = ('For every Merge type, a state a (register 0) and b (register 1) are reached by a history of add / merge / clone '
        'over 3 registers: exhaustively all histories of length <= L over a 3-value alphabet, plus random histories up to '
        'length 40 over section-3.1 values. Then the log must show, bit for bit (NaN==NaN, +0 != -0): a unchanged by '
        'merging a fresh empty estimator into it; a fresh empty estimator merged with a reports exactly a\'s statistics; '
        'b unchanged by a.merge(&b); len(a merged b) == len(a)+len(b) (total bin count for histograms); '
        'is_empty() <=> len()==0. distinct_nontrivial = distinct (type, program) cases whose state a was non-empty.')
ASSUME = ['driver faithfully prints accessor bit patterns', 'bitwise comparison of every public accessor stands for "every reported statistic"']

HIST_EDGES = {
    3: [[0.0, 1.0, 2.0, 4.0], [-1.0, 0.0, 0.0, 5.0]],
    10: [[float(i) for i in range(11)], [float('-inf')] + [float(i) * 0.5 for i in range(9)] + [float('inf')]],
    100: [[i * 0.25 for i in range(101)], [-(100 - i) ** 2 * 1.0 for i in range(101)]],
}


def hist_len(t):
    return int(t.lstrip('CH'))


def total_bins(kv):
    return sum(int(x[1:]) for x in kv['bins'].split(','))


def emit_checks(c, typ, is_hist, edges=None):
    """Append the identity / additivity probes.  Registers: 0 = a, 1 = b, scratch 5.."""
    marks = {}
    marks['a0'] = c.op('O', 0)
    marks['b0'] = c.op('O', 1)
    # empty into a
    if is_hist:
        c.op('HR', 5, edges)
    else:
        c.op('N', 5)
    marks['e0'] = c.op('O', 5)
    c.op('K', 8, 0)
    c.op('M', 8, 5)
    marks['a_after_empty'] = c.op('O', 8)
    marks['e_after'] = c.op('O', 5)
    # a into empty
    if is_hist:
        c.op('HR', 6, edges)
    else:
        c.op('N', 6)
    c.op('M', 6, 0)
    marks['empty_after_a'] = c.op('O', 6)
    marks['a1'] = c.op('O', 0)
    # a.merge(&b)
    c.op('K', 7, 0)
    c.op('M', 7, 1)
    marks['ab'] = c.op('O', 7)
    marks['b1'] = c.op('O', 1)
    # default() is also an empty estimator
    if not is_hist:
        c.op('D', 9)
        c.op('K', 10, 0)
        c.op('M', 10, 9)
        marks['a_after_default'] = c.op('O', 10)
    return marks


def kv_equal(a, b):
    if a.keys() != b.keys():
        return False, 'different accessor sets'
    for k in a:
        if a[k] == b[k]:
            continue
        if ',' in a[k] or ':' in a[k]:
            ta, tb = a[k].replace(':', ',').split(','), b[k].replace(':', ',').split(',')
            if len(ta) == len(tb) and all(same_bits(x, y) for x, y in zip(ta, tb)):
                continue
            return False, '%s: %s vs %s' % (k, a[k][:200], b[k][:200])
        if not same_bits(a[k], b[k]):
            return False, '%s: %s vs %s' % (k, common.show(a[k]) if len(a[k]) == 16 else a[k],
                                            common.show(b[k]) if len(b[k]) == 16 else b[k])
    return True, ''


def judge_case(c, marks, recs, typ, is_hist, res, variant):
    by_op = {r.op: r for r in recs if r.kind == 'o'}
    bad = [r for r in recs if r.kind in ('p', 'e', 'd')]
    for r in bad:
        res.violation(PROP, '%s:%s' % (typ, 'panic' if r.kind == 'p' else 'harness'),
                      '%s: op %d (%s) -> %s %s' % (typ, r.op, c.ops[r.op][:60], r.kind, r.rest), c, variant)
    if bad:
        return False
    o = {k: by_op[v].kv for k, v in marks.items() if v in by_op}
    if len(o) != len(marks):
        res.violation(PROP, '%s:missing-observation' % typ, 'missing observations', c, variant)
        return False

    def need_equal(x, y, what, sig):
        res.count('identity_checks')
        ok, why = kv_equal(o[x], o[y])
        if not ok:
            res.violation(PROP, '%s:%s' % (typ, sig), '%s: %s (%s)' % (typ, what, why), c, variant)

    need_equal('a0', 'a_after_empty', 'merging a fresh empty estimator into a changed a', 'empty-into-a')
    need_equal('e0', 'e_after', 'merge modified its (empty) argument', 'argument-modified')
    need_equal('a0', 'empty_after_a', 'merging a into a fresh empty estimator does not reproduce a', 'a-into-empty')
    need_equal('a0', 'a1', 'merge modified its argument a', 'argument-modified')
    need_equal('b0', 'b1', 'a.merge(&b) modified b', 'argument-modified')
    if 'a_after_default' in o:
        need_equal('a0', 'a_after_default', 'merging a default() estimator into a changed a', 'default-into-a')

    def length(kv):
        if is_hist:
            return total_bins(kv)
        if 'len' in kv:
            return val(kv['len'])
        return None

    la, lb, lab = length(o['a0']), length(o['b0']), length(o['ab'])
    if la is not None:
        res.count('length_checks')
        if max(la, lb) >= 2 ** 31:
            res.count('huge_count_cases')
        if lab != la + lb:
            res.violation(PROP, '%s:len-not-additive' % typ, '%s: len(a)=%d len(b)=%d but merged len=%d' % (typ, la, lb, lab), c, variant)
        exp = c.meta.get('expect_len')
        if exp is not None and (la != exp[0] or lb != exp[1]):
            res.violation(PROP, '%s:len-history' % typ, '%s: len(a)=%d len(b)=%d but the history implies %r' % (typ, la, lb, exp), c, variant)
    if not is_hist and typ in HAS_LEN:
        for k in o:
            kv = o[k]
            res.count('is_empty_checks')
            if val(kv['is_empty']) != (val(kv['len']) == 0):
                res.violation(PROP, '%s:is_empty-vs-len' % typ, '%s: is_empty()=%r but len()=%r' % (typ, val(kv['is_empty']), val(kv['len'])), c, variant)
    res.count('evaluations')
    nonempty = (la or 0) > 0 if la is not None else True
    if nonempty:
        res.count('nonempty_a')
    if la is not None and la > 0 and lb > 0:
        res.count('both_nonempty')
    return nonempty


ALPHA = [0.1, -2.0 / 3.0, 1e9 + 0.3]


def op_alphabet(arity):
    ops = []
    for r in range(3):
        for v in range(3):
            ops.append(('A', r, v))
    for r in range(3):
        for s in range(3):
            ops.append(('M', r, s))
    for r in range(3):
        for s in range(3):
            if r != s:
                ops.append(('K', r, s))
                ops.append(('KF', r, s))
    return ops


def emit_history(c, typ, hist, values, is_hist, edges_by_reg=None):
    """hist: list of (op, r, s|valueindex).  Tracks lengths.  For histograms add uses HA."""
    lens = [0, 0, 0]
    arity = ARITY.get(typ, 1)
    for op, r, s in hist:
        if op == 'A':
            v = values[s]
            if is_hist:
                c.op('HA', r, [v])
                lens[r] += 1 if c.meta['in_range'](r, v) else 0
            elif arity == 2:
                # weighted types: value index 0 carries weight zero, so all-zero-weight states are reachable
                c.op('A', r, [v, values[(s + 1) % len(values)] if typ == 'Covariance'
                              else (0.0 if s == 0 else abs(values[(s + 1) % len(values)]) % 7.0)])
                lens[r] += 1
            else:
                c.op('A', r, [v])
                lens[r] += 1
        elif op == 'M':
            c.op('M', r, s)
            lens[r] += lens[s]
        elif op in ('K', 'KF'):
            c.op(op, r, s)      # KF: Clone::clone_from into the existing register
            lens[r] = lens[s]
    return lens


def new_case(cid, typ, is_hist, edges):
    c = Case(cid, typ)
    if is_hist:
        for r in range(3):
            c.op('HR', r, edges)
        lo, hi = edges[0], edges[-1]
        c.meta['in_range'] = lambda r, v: lo <= v < hi
    else:
        for r in range(3):
            c.op('N', r)
    return c


def shard(desc):
    rng = random.Random(desc['seed'])
    res = Result()
    variant = desc['variant']
    cases, plan = [], []
    cid = 0
    for typ, hists, values in desc['work']:
        is_hist = typ.startswith(('H', 'CH'))
        for h in hists:
            edges = None
            if is_hist:
                edges = HIST_EDGES[hist_len(typ)][cid % 2]
            c = new_case('%s-%d' % (desc['name'], cid), typ, is_hist, edges)
            cid += 1
            lens = emit_history(c, typ, h, values, is_hist)
            c.meta.pop('in_range', None)
            c.meta['expect_len'] = [lens[0], lens[1]]
            marks = emit_checks(c, typ, is_hist, edges)
            c.meta['marks'] = marks
            cases.append(c)
            plan.append((c, marks, typ, is_hist))
    # random long histories
    for i in range(desc.get('nrandom', 0)):
        typ = rng.choice(desc['types'])
        is_hist = typ.startswith(('H', 'CH'))
        edges = HIST_EDGES[hist_len(typ)][rng.randrange(2)] if is_hist else None
        if is_hist:
            values = [rng.uniform(edges[1] if edges[0] == float('-inf') else edges[0], edges[-2] if edges[-1] == float('inf') else edges[-1]) for _ in range(6)] + [edges[0], edges[-1], -1e300, 1e300]
        else:
            values, _ = gen.sequence(rng, n=8)
        L = rng.randint(1, 40)
        ops = op_alphabet(1)
        h = []
        for _ in range(L):
            r = rng.random()
            if r < 0.7:
                h.append(('A', rng.randrange(3), rng.randrange(len(values))))
            elif r < 0.9:
                h.append(('M', rng.randrange(3), rng.randrange(3)))
            else:
                a, b = rng.sample(range(3), 2)
                h.append((rng.choice(['K', 'KF']), a, b))
        c = new_case('%s-%d' % (desc['name'], cid), typ, is_hist, edges)
        cid += 1
        lens = emit_history(c, typ, h, values, is_hist)
        c.meta.pop('in_range', None)
        c.meta['expect_len'] = [lens[0], lens[1]]
        marks = emit_checks(c, typ, is_hist, edges)
        c.meta['marks'] = marks
        cases.append(c)
        plan.append((c, marks, typ, is_hist))
        res.count('random_histories')
    logs = run_driver(desc['binary'], ''.join(c.text() for c in cases))
    for c, marks, typ, is_hist in plan:
        recs = logs.get(c.id)
        if recs is None:
            res.inconclusive.append('case %s missing' % c.id)
            continue
        nonempty = judge_case(c, marks, recs, typ, is_hist, res, variant)
        res.count('cases_%s' % typ)
        if nonempty:
            res.distinct.add(c.key())
        if len(res.samples) < 2 and nonempty and len(c.ops) < 30:
            res.sample({'type': typ, 'program': c.ops})
    return res


def run(tier, seed):
    t0 = time.time()
    total = Result()
    ops = op_alphabet(1)
    if tier == 'quick':
        L, nrandom, variants = 2, 8000, [('release', 1.0), ('dev', 0.3), ('plain', 0.2)]
    else:
        L, nrandom, variants = 3, 150000, [('release', 1.0), ('dev', 0.2), ('nightly', 0.2), ('plain', 0.1)]
    hists = []
    for n in range(0, L + 1):
        hists.extend(itertools.product(ops, repeat=n))
    extra_rng = random.Random(seed)
    deeper = [tuple(extra_rng.choice(ops) for _ in range(L + 1)) for _ in range(2000 if tier == 'quick' else 60000)]
    # sample sizes beyond 2^32 / 2^53 (where an f64 count is no longer exact) by repeated self-merging of register 0,
    # with a small register 1: lengths must still add exactly and the identities must still hold bit for bit
    for kdbl in (31, 32, 33, 52, 53, 54, 60):
        for first in (0, 1, 2):
            for nb in (1, 3):
                deeper.append(tuple([('A', 0, first)] + [('M', 0, 0)] * kdbl + [('A', 1, (first + j) % 3) for j in range(nb)]))
                deeper.append(tuple([('A', 1, first)] + [('M', 1, 1)] * kdbl + [('A', 0, (first + j) % 3) for j in range(nb)]))
    try:
        for variant, frac in variants:
            binary = build(variant)
            types = EST_TYPES + HIST_TYPES + (CONST_HIST_TYPES if variant == 'nightly' else [])
            if variant == 'nightly':
                types = CONST_HIST_TYPES + ['H3']
            nsh = common.NPROC * (2 if tier == 'thorough' else 1)
            allh = hists + deeper
            if variant != 'release':
                allh = allh[::4] + [h for h in deeper if len(h) > 30][::3]
            descs = []
            for s in range(nsh):
                work = []
                for t in types:
                    hv = allh[s::nsh]
                    if t in ('H100',):
                        hv = hv[::4]
                    work.append((t, hv, ALPHA))
                descs.append({'name': '%s%d' % (variant[0], s), 'variant': variant, 'binary': binary, 'work': work,
                              'nrandom': int(nrandom * frac) // nsh, 'types': types,
                              'seed': seed * 1000003 + s * 7919 + sum(map(ord, variant))})
            total.merge(common.run_shards(shard, descs))
    except common.Inconclusive as e:
        total.inconclusive.append(str(e))
    need = {'identity_checks': 10000, 'nonempty_a': 1000, 'both_nonempty': 500, 'random_histories': 500, 'huge_count_cases': 100}
    for t in EST_TYPES + HIST_TYPES:
        need['cases_%s' % t] = 50
    return common.finish(PROP, tier, seed, total, RULE, t0, ASSUME, min_events=need,
                         extra={'builds': [v for v, _ in variants], 'exhaustive_history_length': L,
                                'op_alphabet_size': len(ops)})


def rejudge(case, recs, res, variant, v):
    typ = case.type
    judge_case(case, case.meta['marks'], recs, typ, typ.startswith(('H', 'CH')), res, variant)
