"""C07 - with fewer than five observations Quantile returns the exact sample quantile."""
import itertools
import math
import random
import time
from fractions import Fraction

import common
from common import Case, Result, build, run_driver, val, PANIC, f2h
import p2

PROP = 'C07'
ALPHA = [-1.5, -0.0, 0.0, 2.0, 7.0, 1e30, 1.7e308, -1.6e308]
# the smallest subnormals: halving them is inexact (the midpoint convention must still land between the two values)
ALPHA_TINY = [5e-324, 1e-323, 1.5e-323, -5e-324, 0.0, 2.2250738585072014e-308]
RULE = ('EVERY sequence of length 4 over {-1.5, -0.0, +0.0, 2.0, 7.0, 1e30, 1.7e308, -1.6e308}, observed after each of its 1..4 observations (so '
        'every sequence of length 1..4, i.e. every permutation of every multiset with duplicates) x a grid of p containing 0, 1, '
        'every k/n for n<=4, the floating-point neighbours of each, and random p; plus random sequences of section-3.1 values. '
        'Model: sort the multiset; t = n*p exactly (p is a dyadic rational); the answer is the order statistic ceil(t) (clamped), '
        'averaged with the next one when t is a whole number (midpoint within 1 ulp); if t is within 4*n*u of an integer either '
        'adjacent convention is accepted. Also checked directly: all permutations of a multiset give bit-equal results; len(). '
        'distinct_nontrivial = distinct (p, arrival order) cases with n>=2 whose observations are not all equal.')
ASSUME = ['driver faithfully prints accessor bit patterns', 'model: p2.exact_small_quantile (exact rational n*p)']


def p_grid(rng, nrandom):
    ps = {0.0, 1.0}
    for n in (1, 2, 3, 4):
        for k in range(0, n + 1):
            v = k / n
            for w in (v, math.nextafter(v, 2.0), math.nextafter(v, -1.0),
                      # not within rounding of the boundary, but close: a tolerance in the whole-number test shows here
                      v + 1e-10, v - 1e-10, v + 1e-12, v - 1e-12, v + 3e-15, v - 3e-15, v + 1e-7, v - 1e-7):
                if 0.0 <= w <= 1.0:
                    ps.add(w)
    ps.add(-0.0)
    out = sorted(ps)
    out += [rng.random() for _ in range(nrandom)]
    out += [5e-324, 1e-300, 2.0 ** -60, 1e-17, 1 - 2 ** -53]
    return out


def shard(desc):
    res = Result()
    variant = desc['variant']
    cases, plan = [], []
    for i, (p, seq) in enumerate(desc['work']):
        c = Case('%s-%d' % (desc['name'], i), 'Quantile', [p])
        c.op('N', 0)
        marks = []
        noisy = (i % 7 == 3)
        for k, x in enumerate(seq, 1):
            c.op('A', 0, [x])
            if noisy and all(abs(v_) != math.inf for v_ in seq[:k]):
                # an invisible operation before the observation: serde round trip (both formats) or clone + clone_from
                which = (i // 7 + k) % 3
                if which == 2:
                    c.op('K', 29, 0)
                    c.op('Q', 0, p)
                    c.op('KF', 0, 29)
                else:
                    c.op('S', 0, 'jv'[which])
                res.count('invisible_ops')
            marks.append((c.op('O', 0), k))
        cases.append(c)
        plan.append((c, p, seq, marks))
    logs = run_driver(desc['binary'], ''.join(c.text() for c in cases))
    groups = {}
    for c, p, seq, marks in plan:
        recs = logs.get(c.id)
        if recs is None:
            res.inconclusive.append('case %s missing' % c.id)
            continue
        for r in recs:
            if r.kind in ('p', 'e', 'd'):
                res.violation(PROP, 'Quantile:%s' % ('panic' if r.kind == 'p' else 'harness'),
                              'p=%r seq=%r: op %d -> %s' % (p, seq, r.op, r.rest), c, variant)
        by_op = {r.op: r for r in recs if r.kind == 'o'}
        for opi, k in marks:
            r = by_op.get(opi)
            if r is None:
                continue
            xs = list(seq[:k])
            res.count('evaluations')
            tok = r.kv['quantile']
            got = val(tok)
            if val(r.kv['len']) != k:
                res.violation(PROP, 'Quantile.len:wrong', 'len()=%r after %d adds' % (val(r.kv['len']), k), c, variant)
            values, mids = p2.exact_small_quantile(p, xs)
            ok = got is not PANIC and p2.small_quantile_ok(got, values, mids)
            t = Fraction(p) * k
            if t == round(t) and 1 <= t <= k - 1:
                res.count('midpoint_cases')
            elif len(values) + len(mids) > 1:
                res.count('near_integer_cases')
            if p == 0.0:
                res.count('p0_cases')
            if p == 1.0:
                res.count('p1_cases')
            if not ok:
                srt = sorted(xs)
                cls = 'unsorted-arrival' if xs != srt else 'sorted-arrival'
                res.violation(PROP, 'Quantile.quantile:small-sample:%s' % cls,
                              'Quantile(p=%r) after %r: quantile() = %s but the exact sample quantile is %s%s' % (
                                  p, xs, common.show(tok) if got is not PANIC else 'PANIC', sorted(values),
                                  (' or midpoint %r' % [float(m) for m in mids]) if mids else ''), c, variant)
            key = (f2h(p), tuple(sorted(f2h(x) for x in xs)))
            groups.setdefault(key, set()).add(tok)
            if xs != sorted(xs):
                res.count('unsorted_arrival_states')
            if k >= 2 and len(set(xs)) > 1:
                res.distinct.add(hash((f2h(p), tuple(f2h(x) for x in xs))))
        if len(res.samples) < 2 and p not in (0.0, 1.0) and list(seq) != sorted(seq):
            res.sample({'p': p, 'sequence': list(seq), 'program': c.ops,
                        'observations': [common.show(by_op[o].kv['quantile']) for o, _ in marks if o in by_op]})
    # permutation invariance, checked directly
    for key, toks in groups.items():
        res.count('multiset_groups')
        if len(toks) > 1:
            res.violation(PROP, 'Quantile.quantile:order-dependent',
                          'p=%r: the multiset %r gives different results depending on arrival order: %r' % (
                              common.h2f(key[0]), [common.h2f(t) for t in key[1]], sorted(common.h2f(t) for t in toks)), None, variant)
    return res


def run(tier, seed):
    t0 = time.time()
    total = Result()
    rng = random.Random(seed)
    ps = p_grid(rng, 12 if tier == 'quick' else 40)
    seqs = list(itertools.product(ALPHA, repeat=4)) + list(itertools.product(ALPHA_TINY, repeat=4))
    variants = [('release', 1.0), ('dev', 0.34)]
    try:
        for variant, frac in variants:
            binary = build(variant)
            # the dev build sees a third of the grid, but always the extreme p values (range-checked casts exist only there)
            pp = ps if frac >= 1 else sorted(set(ps[::3]) | {0.0, 1.0, 5e-324, 1e-300, 2.0 ** -60, 1e-17, 1 - 2 ** -53})
            # shard by p so that all permutations of a multiset (for one p) land in one shard
            nsh = common.NPROC * (2 if tier == 'thorough' else 1)
            descs = []
            for s in range(nsh):
                work = []
                for p in pp[s::nsh]:
                    for q in seqs:
                        work.append((p, q))
                    for _ in range(60 if tier == 'quick' else 600):
                        n = rng.randint(1, 4)
                        work.append((p, tuple(common.frombits(common.bits(rng.choice([-1, 1]) * 10.0 ** rng.uniform(-30, 30))) for _ in range(n))))
                descs.append({'name': '%s%d' % (variant[0], s), 'variant': variant, 'binary': binary, 'work': work})
            total.merge(common.run_shards(shard, descs))
        if tier == 'thorough':
            miri_leg(total, rng)
    except common.Inconclusive as e:
        total.inconclusive.append(str(e))
    need = {'midpoint_cases': 500, 'near_integer_cases': 200, 'p0_cases': 500, 'p1_cases': 500,
            'unsorted_arrival_states': 5000, 'multiset_groups': 1000}
    return common.finish(PROP, tier, seed, total, RULE, t0, ASSUME, min_events=need, exhaustive=True,
                         extra={'builds': [v for v, _ in variants] + (['miri'] if tier == 'thorough' else []),
                                'p_grid_size': len(ps), 'alphabet': [repr(a) for a in ALPHA]})


def miri_leg(total, rng):
    """float_ord::sort transmutes the slice: run a few small-sample cases under Miri."""
    work = []
    for p in (0.0, 0.5, 0.75, 1.0):
        for _ in range(6):
            work.append((p, tuple(rng.choice(ALPHA) for _ in range(4))))
    cases = []
    for i, (p, seq) in enumerate(work):
        c = Case('m%d' % i, 'Quantile', [p])
        c.op('N', 0)
        for x in seq:
            c.op('A', 0, [x])
            c.op('O', 0)
        cases.append((c, p, seq))
    logs, report = common.run_miri(''.join(c.text() for c, _, _ in cases), tag='c07')
    if report is not None:
        total.violation(PROP, 'miri:ub-report', 'Miri reported undefined behaviour in the small-sample path: %s' % report[-1500:], None, 'miri')
        return
    for c, p, seq in cases:
        obs = [r for r in logs[0][c.id] if r.kind == 'o']
        for k, r in enumerate(obs, 1):
            values, mids = p2.exact_small_quantile(p, list(seq[:k]))
            got = val(r.kv['quantile'])
            total.count('miri_states')
            if got is PANIC or not p2.small_quantile_ok(got, values, mids):
                total.violation(PROP, 'Quantile.quantile:small-sample:miri', 'under Miri: p=%r %r -> %r' % (p, seq[:k], got), c, 'miri')
    total.count('miri_runs')
