"""C08 - weighted mean and its error equal the exact weighted statistics."""
import itertools
import time

import common
from common import Case, Result, build, run_driver
import pairprop
import pairs
import seqcheck as sc

PROP = 'C08'
RULE = ('(x, w) sequences: x from the 10 section-3.1 shape families (scale 1e-25..1e25, offsets to 1e12 spreads), w in {0} U '
        '1e-6..1e6 with zero weights forced first / last / in runs / as a whole prefix / sparse, sum w > 0; built one at a time '
        '(observed after every add), by collect / extend (value and reference), and by random merge histories (k<=10 chunks, '
        'incl. chunks whose weights are all zero) for WeightedMean and WeightedMeanWithError; plus every zero/non-zero weight '
        'pattern for n<=4 on fixed sequences. Every accessor is compared with exact rational sum(wx)/sum(w), sum w, sum w^2, '
        '(sum w)^2/sum w^2, the unweighted statistics and sample_variance*sum w^2/(sum w)^2 within the section-2 envelopes. '
        'distinct_nontrivial = distinct (type, program) cases with a checked state having n>=2, sum w>0 and a non-vacuous envelope.')
ASSUME = ['CPython int/Fraction arithmetic is exact; sqrt via isqrt to 2^-200', 'driver faithfully prints accessor bit patterns',
          'envelope constants of DESIGN.md section 2 (calibrated, fixed)']


def enum_zero(binary, variant):
    """Every zero / non-zero weight pattern (not all zero) for n <= 4 on fixed data."""
    res = Result()
    seqs = [[1.0, 2.0, 4.0, 8.5], [1e9 + 0.25, 1e9 + 3.5, 1e9 - 2.125, 1e9 + 7.0], [-3.0, 0.1, 0.1, 2.0e-5]]
    wvals = [1.0, 0.3, 2.5e3, 7.0e-4]
    cases, plan = [], []
    k = 0
    for xs in seqs:
        for n in range(1, 5):
            for mask in itertools.product([0, 1], repeat=n):
                if not any(mask):
                    continue
                ws = [wvals[i] if mask[i] else 0.0 for i in range(n)]
                oracle = pairs.WeightedOracle(xs[:n], ws)
                for typ in ('WeightedMean', 'WeightedMeanWithError'):
                    c, marks = sc.prefix_case('z-%d' % k, typ, xs[:n], weights=ws, meta={'mask': list(mask)})
                    k += 1
                    cases.append(c)
                    plan.append((c, marks, oracle, typ))
    logs = run_driver(binary, ''.join(c.text() for c in cases))
    for c, marks, oracle, typ in plan:
        recs = logs[c.id]
        by_op = {r.op: r for r in recs if r.kind == 'o'}
        for r in recs:
            if r.kind in ('p', 'e', 'd'):
                res.violation(PROP, '%s:panic' % typ, '%s: op %d -> %s' % (typ, r.op, r.rest), c, variant)
        for opi, kk in marks:
            if pairs.judge_weighted(PROP, typ, oracle, 0, kk, by_op[opi].kv, res, c, variant,
                                    context='after %d adds, zero-weight mask %s' % (kk, c.meta['mask'])):
                res.distinct.add(c.key())
        res.count('enumerated_zero_patterns')
    return res


def bigcount(binary, variant, seed):
    """Sample sizes beyond 2^32 by repeated self-merging; two huge operands with different means merged; adds afterwards."""
    import random
    rng = random.Random(seed)
    res = Result()
    cases, plan = [], []
    for typ in ('WeightedMeanWithError', 'WeightedMean'):
        for ka, kb in [(16, 16), (31, 31), (32, 32), (33, 0), (33, 33), (40, 20), (53, 1)]:
            pa = [(float(rng.randint(-20, 20)) + 0.5, rng.choice([0.0, 1.0, 0.25, 3.0])) for _ in range(rng.randint(2, 4))]
            pb = [(float(rng.randint(30, 60)), rng.choice([1.0, 0.5, 2.0])) for _ in range(rng.randint(1, 3))]
            if all(w == 0.0 for _, w in pa):
                pa[0] = (pa[0][0], 1.0)
            extras = [(float(rng.randint(100, 300)), 2.0), (-7.5, 0.0), (1.25, 1.0)]
            c = Case('bc-%s-%d-%d' % (typ, ka, kb), typ, meta={'ka': ka, 'kb': kb})
            c.op('N', 0)
            c.op('A', 0, [v for p in pa for v in p])
            for _ in range(ka):
                c.op('M', 0, 0)
            c.op('N', 1)
            c.op('A', 1, [v for p in pb for v in p])
            for _ in range(kb):
                c.op('M', 1, 1)
            r_ = rng.randint(0, 1)
            c.op('M', r_, 1 - r_)
            pairs_, counts = pa + pb, [2 ** ka] * len(pa) + [2 ** kb] * len(pb)
            marks = [(c.op('O', r_), list(pairs_), list(counts))]
            for e in extras:
                c.op('A', r_, list(e))
                pairs_, counts = pairs_ + [e], counts + [1]
                marks.append((c.op('O', r_), list(pairs_), list(counts)))
            cases.append(c)
            plan.append((c, typ, marks))
    logs = run_driver(binary, ''.join(c.text() for c in cases))
    for c, typ, marks in plan:
        recs = logs[c.id]
        for r in recs:
            if r.kind in ('p', 'e', 'd'):
                res.violation(PROP, '%s:%s' % (typ, 'panic' if r.kind == 'p' else 'harness'),
                              '%s with 2^%d / 2^%d-fold self-merged operands: op %d -> %s' % (typ, c.meta['ka'], c.meta['kb'], r.op, r.rest), c, variant)
        by_op = {r.op: r for r in recs if r.kind == 'o'}
        for opi, pr, cnt in marks:
            if opi in by_op:
                pairs.judge_weighted_multiset(PROP, typ, [p[0] for p in pr], [p[1] for p in pr], cnt, by_op[opi].kv, res, c, variant,
                                              context='(self-merged 2^%d and 2^%d times)' % (c.meta['ka'], c.meta['kb']))
                res.count('bigcount_states')
        res.distinct.add(c.key())
    return res


def run(tier, seed):
    t0 = time.time()
    total = Result()
    if tier == 'quick':
        nseq, variants, mult = 2200, [('release', 1.0), ('dev', 0.3), ('std', 0.15), ('bare', 0.15)], 1
    else:
        nseq, variants, mult = 50000, [('release', 1.0), ('dev', 0.2), ('std', 0.1), ('bare', 0.1)], 8
    try:
        for variant, frac in variants:
            binary = build(variant)
            nsh = common.NPROC * mult
            descs = [{'prop': PROP, 'kind': 'weighted', 'name': '%s%d' % (variant[0], s), 'variant': variant, 'binary': binary,
                      'nseq': max(1, int(nseq * frac) // nsh),
                      'lopsided': ([[(1100, 1)], [(4500, 2)], [(9000, 1)], [(70000, 1)]][s] if (s < 4 and variant == 'release') else []),
                      'seed': seed * 1000003 + s * 7919 + sum(map(ord, variant))} for s in range(nsh)]
            total.merge(common.run_shards(pairprop.shard, descs))
            total.merge(enum_zero(binary, variant))
            if variant in ('release', 'dev'):
                total.merge(bigcount(binary, variant, seed))
    except common.Inconclusive as e:
        total.inconclusive.append(str(e))
    need = {'bigcount_states': 50, 'lopsided_histories': 8, 'nontrivial_states': 1000, 'states_with_zero_weight': 1000, 'merge_histories': 500, 'all_zero_weight_chunks': 20,
            'enumerated_zero_patterns': 100, 'nontrivial_merge_nodes': 500}
    return common.finish(PROP, tier, seed, total, RULE, t0, ASSUME, min_events=need,
                         extra={'builds': [v for v, _ in variants]})
