"""Generic shard runner for the sequence-based moment properties (C03, C04, C10):
generate sequences, feed each to several estimator types one observation at a time,
observe at every checkpoint, judge against exact moments."""
import random
from fractions import Fraction

import common
from common import Case, Result, run_driver, val
import exact as ex
import gen
import momentcheck as mc
import seqcheck as sc


def sign_events(res, mo):
    """Coverage events: which signs of exact skewness / excess kurtosis were seen."""
    if mo.sigma == 0 or 3 not in mo.m:
        return
    s3 = ex.pow15_frac(mo.m[2])
    sk = mo.m[3] / s3
    if sk > Fraction(1, 10):
        res.count('seen_skew_pos')
    elif sk < Fraction(-1, 10):
        res.count('seen_skew_neg')
    if 4 in mo.m:
        ku = mo.m[4] / (mo.m[2] ** 2) - 3
        if ku > Fraction(1, 10):
            res.count('seen_kurt_pos')
        elif ku < Fraction(-1, 10):
            res.count('seen_kurt_neg')


def shard(desc):
    """desc: name, seed, nseq, binary, variant, prop, types (list of (type, only or None)),
    P, shapes (weights), scale_range, max_offset_exp, min_n, orders, exhaustive (optional list of
    sequences to run instead of random ones)."""
    rng = random.Random(desc['seed'])
    res = Result()
    prop = desc['prop']
    cases, plan = [], []
    cid = 0
    seqs = []
    if desc.get('sequences') is not None:
        for xs in desc['sequences']:
            seqs.append((xs, {'shape': 'enumerated'}, ('asgen',)))
    else:
        shapes = desc.get('shapes')
        for i in range(desc['nseq']):
            sh = rng.choice(shapes) if shapes else None
            n = max(desc.get('min_n', 1), gen.pick_len(rng, maxlen=desc.get('maxlen', 400),
                                                       long_prob=desc.get('long_prob', 0.01)))
            if desc.get('fixed_n'):
                n = rng.choice(desc['fixed_n'])
            xs, meta = gen.sequence(rng, n=n, shape=sh, scale_range=tuple(desc.get('scale_range', (-28, 28))),
                                    max_offset_exp=desc.get('max_offset_exp', 12),
                                    need_spread=desc.get('need_spread', False))
            if len(xs) >= 4 and rng.random() < 0.08:
                # observations that hit the running mean exactly (delta == 0 with a non-zero spread): small dyadic data whose
                # running mean is exact, every third value replaced by the mean so far
                sc_ = 2.0 ** rng.randint(-20, 20)
                xs = [float(rng.randint(-8, 8)) * sc_ for _ in xs]
                tot = 0.0
                for j in range(len(xs)):
                    if j >= 2 and j % 3 == 2 and (tot / j) * j == tot:
                        xs[j] = tot / j
                    tot += xs[j]
                if len(set(xs)) < 2:
                    xs[0] += sc_
                meta = dict(meta, shape='hits_running_mean')
                res.count('sequences_hitting_running_mean')
            k = desc.get('norders', 3)
            orders = ('asgen',) + tuple(rng.sample(['asc', 'desc', 'abs', 'absdesc', 'shuffled'], k - 1))
            seqs.append((xs, meta, orders))
    for xs, meta, orders in seqs:
        for oname, ys in gen.order_variants(rng, xs, orders):
            oracle = sc.PrefixOracle(ys, desc['P'])
            for typ, only in desc['types']:
                if mc.ORDER[typ] > desc['P'] or not common.has_type(desc['variant'], typ):
                    continue
                m = dict(meta)
                m['order'] = oname
                weights = None
                if typ == 'WeightedMeanWithError':
                    weights = [rng.choice([0.0, 1.0, 10.0 ** rng.uniform(-6, 6)]) for _ in ys]
                c, marks = sc.prefix_case('%s-%d' % (desc['name'], cid), typ, ys, meta=m,
                                          dense_limit=desc.get('dense_limit', 64), weights=weights,
                                          final_only=desc.get('final_only', False), via_trait=rng.random() < 0.2,
                                          noise=(rng if rng.random() < 0.15 else None), serde_ok=common.has_serde(desc['variant']))
                if c.meta.get('noise'):
                    res.count('cases_with_invisible_ops')
                cid += 1
                cases.append(c)
                plan.append((c, marks, oracle, typ, only))
    logs = run_driver(desc['binary'], ''.join(c.text() for c in cases))
    seen_oracles = set()
    for c, marks, oracle, typ, only in plan:
        recs = logs.get(c.id)
        if recs is None:
            res.inconclusive.append('case %s missing from driver log' % c.id)
            continue
        nt = sc.judge_prefix_case(prop, typ, c, marks, recs, oracle, res, desc['variant'], only=only)
        res.count('cases')
        res.count('cases_%s' % typ)
        if nt:
            res.distinct.add(c.key())
        if id(oracle) not in seen_oracles:
            seen_oracles.add(id(oracle))
            sign_events(res, oracle.at(len(oracle.xs)))
        if len(res.samples) < 2 and nt and len(oracle.xs) <= 6:
            o = [r for r in recs if r.kind == 'o'][-1]
            mo = oracle.at(len(oracle.xs))
            res.sample({'type': c.type, 'program': c.ops, 'meta': c.meta,
                        'last_observation': {k: common.show(v) for k, v in o.kv.items()},
                        'exact': {'mean': ex.approx(mo.mean),
                                  **{'m%d' % p: ex.approx(v) for p, v in mo.m.items()}}})
    return res


def make_descs(base, variant, binary, nseq, nsh, seed):
    descs = []
    for s in range(nsh):
        d = dict(base)
        d.update({'name': '%s%d' % (variant[0], s), 'variant': variant, 'binary': binary,
                  'nseq': max(1, nseq // nsh),
                  'seed': seed * 1000003 + s * 7919 + sum(map(ord, variant))})
        descs.append(d)
    return descs
