"""C03 - Skewness and Kurtosis equal the exact standardized moments."""
import time

import common
from common import Result, build
import seqprop

PROP = 'C03'
RULE = ('Sequences with non-zero spread from shape families weighted towards asymmetric (both signs), two-point, '
        'single-outlier, progressions, bimodal, heavy-tailed; scale 1e-28..1e28, common offset up to 1e9 spreads; '
        '>=3 orderings each; fed one at a time to Skewness and Kurtosis, observed after every add (n<=64) or at '
        'geometric checkpoints; skewness, kurtosis and the re-exported mean/variance/error_mean accessors are '
        'compared with exact rational m3/m2^1.5, m4/m2^2-3 etc. within the DESIGN.md section-2 envelopes. '
        'distinct_nontrivial = distinct (type, program) cases with >=1 checked state with n>=2, sigma>0, inside '
        'the guard and envelope <= 1e-3.')
ASSUME = ['CPython int/Fraction arithmetic is exact; sqrt via isqrt to 2^-200', 'driver faithfully prints accessor bit patterns',
          'envelope constants of DESIGN.md section 2 (calibrated, fixed)']
SHAPES = ['exp_pos', 'exp_neg', 'exp_pos', 'exp_neg', 'twopoint', 'twopoint', 'outlier', 'outlier', 'arith',
          'bimodal', 'lognormal', 'lognormal', 'normal', 'smallint']


def run(tier, seed):
    t0 = time.time()
    base = {'prop': PROP, 'types': [('Skewness', None), ('Kurtosis', None)], 'P': 4, 'shapes': SHAPES,
            'max_offset_exp': 9, 'need_spread': True, 'min_n': 2}
    if tier == 'quick':
        nseq, variants, mult = 2000, [('release', 1.0), ('dev', 0.25), ('std', 0.15), ('native', 0.15)], 1
    else:
        nseq, variants, mult = 100000, [('release', 1.0), ('dev', 0.15), ('std', 0.15), ('native', 0.15)], 8
    total = Result()
    try:
        for variant, frac in variants:
            binary = build(variant)
            descs = seqprop.make_descs(base, variant, binary, int(nseq * frac), common.NPROC * mult, seed)
            total.merge(common.run_shards(seqprop.shard, descs))
        import bigcount
        for variant in ('release', 'dev'):
            binary = build(variant)
            bc = [(t, ka, kb) for t in ('Skewness', 'Kurtosis') for ka, kb in [(16, 16), (31, 31), (32, 32), (33, 0), (33, 33), (40, 20), (53, 0), (62, 62)]]
            descs = [{'name': 'b%s%d' % (variant[0], s), 'variant': variant, 'binary': binary, 'work': bc[s::8], 'prop': PROP,
                      'ar_work': ([(('Skewness', 'Kurtosis')[s % 2], 2 ** 32 + 1000 + s)] if (tier == 'thorough' and variant == 'release' and s < 4) else []),
                      'seed': seed * 7 + s} for s in range(8)]
            total.merge(common.run_shards(bigcount.shard, descs))
    except common.Inconclusive as e:
        total.inconclusive.append(str(e))
    return common.finish(PROP, tier, seed, total, RULE, t0, ASSUME,
                         min_events={'bigcount_states_above_2^32': 20, 'nontrivial_states': 1000, 'seen_skew_pos': 20, 'seen_skew_neg': 20,
                                     'seen_kurt_pos': 20, 'seen_kurt_neg': 20},
                         extra={'builds': [v for v, _ in variants]})
