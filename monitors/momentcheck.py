"""Judge for the moment family (Mean, Variance, Skewness, Kurtosis, define_moments! types):
observed accessor values vs. exact statistics of the multiset, within the envelopes of
DESIGN.md section 2."""
import math
from fractions import Fraction

import common
from common import PANIC, val, show
import exact as ex
from exact import Expect, Fraction as _F

ORDER = {'Mean': 1, 'Variance': 2, 'MeanWithError': 2, 'Skewness': 3, 'Kurtosis': 4,
         'WeightedMeanWithError': 2, 'Moments4': 4, 'M4': 4, 'M5': 5, 'M6': 6, 'M7': 7, 'M8': 8, 'M9': 9, 'M10': 10}
KAPPA_MAX = 10 ** 12
MOMENT_TYPES = ('Moments4', 'M4', 'M5', 'M6', 'M7', 'M8', 'M9', 'M10')


def base_type(typ):
    return typ[5:] if typ.startswith('Probe') else typ


def expectations(typ, mo, only=None):
    """typ: estimator type; mo: exact Moments with P >= max(2, ORDER[typ]).  Assumes sigma > 0."""
    typ = base_type(typ)
    P = ORDER[typ]
    n = mo.n
    E = {}
    m2 = mo.m[2]
    sig = mo.sigma
    kap = mo.kappa
    guard_ok = ex.representable(mo, max(P, 2))

    def put(name, exact_v, C, scale):
        if only is not None and name not in only:
            return
        if not guard_ok:
            E[name] = Expect(special='skip')
            return
        b, unit, vac = ex.env(mo, C, scale)
        E[name] = Expect(exact_v, b, unit, vacuous=vac)

    if typ == 'WeightedMeanWithError':
        # only the unweighted part is a function of the x multiset alone
        put('unweighted_mean', mo.mean, ex.C_MEAN, sig)
        put('population_variance', m2, ex.C_VAR, m2)
        if n >= 2:
            put('sample_variance', m2 * n / (n - 1), ex.C_VAR, m2 * n / (n - 1))
        else:
            E['sample_variance'] = Expect(special='nan')
        return E
    # mean: scale sigma  => bound C*n*u*(sigma+M)
    put('mean', mo.mean, ex.C_MEAN, sig)
    if typ == 'Mean':
        put('estimate', mo.mean, ex.C_MEAN, sig)
        return E
    if typ in ('Variance', 'Skewness', 'Kurtosis'):
        put('population_variance', m2, ex.C_VAR, m2)
        if n >= 2:
            put('sample_variance', m2 * n / (n - 1), ex.C_VAR, m2 * n / (n - 1))
        else:
            E['sample_variance'] = Expect(special='nan')
    if typ == 'Variance':
        if n >= 2:
            put('variance_of_mean', m2 / (n - 1), ex.C_VAR, m2 / (n - 1))
            e = ex.sqrt_frac(m2 / (n - 1))
            put('error', e, ex.C_ERR, e)
        put('estimate', m2, ex.C_VAR, m2)
        return E
    if typ in ('Skewness', 'Kurtosis'):
        if n >= 2:
            e = ex.sqrt_frac(m2 / (n - 1))
            put('error_mean', e, ex.C_ERR, e)
        s3 = ex.pow15_frac(m2)
        sk = mo.m[3] / s3
        put('skewness', sk, ex.C_SKEW, mo.a[3] / s3)
        if typ == 'Skewness':
            put('estimate', sk, ex.C_SKEW, mo.a[3] / s3)
            return E
        ku = mo.m[4] / (m2 * m2) - 3
        put('kurtosis', ku, ex.C_KURT, mo.m[4] / (m2 * m2))
        put('estimate', ku, ex.C_KURT, mo.m[4] / (m2 * m2))
        return E
    # define_moments! types
    E['cm0'] = Expect(special=('exact', 1.0))
    E['cm1'] = Expect(special=('exact', 0.0))
    E['sm0'] = Expect(special=('exact', float(n)))
    E['sm1'] = Expect(special=('exact', 0.0))
    E['sm2'] = Expect(special=('exact', 1.0))
    put('cm2', m2, ex.C_VAR, m2)
    sigp = {2: m2, 3: ex.pow15_frac(m2)}
    for p in range(4, P + 1):
        sigp[p] = sigp[p - 2] * m2
    for p in range(3, P + 1):
        put('cm%d' % p, mo.m[p], ex.c_moment(p), mo.absmom(p))
        put('sm%d' % p, mo.m[p] / sigp[p], ex.c_moment(p), mo.absmom(p) / sigp[p])
    if n >= 2:
        put('sample_variance', m2 * n / (n - 1), ex.C_VAR, m2 * n / (n - 1))
    else:
        E['sample_variance'] = Expect(special='nan')
    a3s = mo.a[3] / sigp[3]
    if n >= 3:
        f = ex.sqrt_frac(Fraction(n * (n - 1))) / (n - 2)
        put('sample_skewness', f * mo.m[3] / sigp[3], ex.C_SSKEW, f * a3s)
    elif n == 2:
        put('sample_skewness', Fraction(0), ex.C_SSKEW, a3s)
    if n >= 4:
        k4 = mo.m[4] / (m2 * m2)
        g2 = Fraction(n - 1, (n - 2) * (n - 3)) * ((n + 1) * (k4 - 3) + 6)
        put('sample_excess_kurtosis', g2, ex.C_SKURT, Fraction(n * n - 1, (n - 2) * (n - 3)) * k4)
    else:
        E['sample_excess_kurtosis'] = Expect(special='nan')
    return E


def judge(prop, typ, xs, kv, res, case, variant='release', only=None, mo=None, context='', memo=None, memo_key=None, add_only=False):
    """Check one observation record of a moment-family estimator fed the multiset xs.
    Returns True when the state was non-trivial (n >= 2, sigma > 0, envelope <= 1e-3,
    inside the guard)."""
    bt = base_type(typ)
    n = len(xs) if xs is not None else mo.n
    res.count('evaluations')
    ln = val(kv['len'])
    if ln != n:
        res.violation(prop, '%s.len:wrong' % bt, '%s: len()=%r but %d observations were absorbed %s' % (
            typ, ln, n, context), case, variant)
        return False
    if n == 0:
        return False
    P = max(2, ORDER[bt])
    if mo is None:
        mo = ex.moments(xs, P)
    if mo.sigma == 0:
        # constant data (incl. a single observation).  Envelopes do not apply (kappa is infinite); for add-only histories the
        # documented contract (C16) is exact: mean == x, population variance / variance of mean / error / skewness / kurtosis == 0,
        # sample variance NaN below two observations.  Merged constant data are left to C16 / C11.
        res.count('skipped_zero_spread')
        if add_only and xs is not None:
            x = xs[0]
            want = {'mean': x, 'population_variance': 0.0, 'variance_of_mean': 0.0, 'error': 0.0, 'error_mean': 0.0,
                    'skewness': 0.0, 'kurtosis': 0.0, 'cm2': 0.0, 'sample_variance': (0.0 if n >= 2 else None)}
            for name, w in want.items():
                if name not in kv or (only is not None and name not in only):
                    continue
                got = val(kv[name])
                res.count('constant_state_checks')
                ok = (isinstance(got, float) and got != got) if w is None else (got == w)
                if not ok:
                    res.violation(prop, '%s.%s:constant' % (bt, name), '%s.%s() = %s after %d identical observations %r (expected %s) %s' % (
                        typ, name, show(kv[name]), n, x, 'NaN' if w is None else repr(w), context), case, variant)
        return False
    if mo.kappa > KAPPA_MAX:
        # outside the quantifier's domain (kappa <= 1e12); C17 covers unrestricted conditioning
        res.count('skipped_kappa_out_of_domain')
        return False
    if memo is not None:
        ek = ('E', bt, memo_key)
        E = memo.get(ek)
        if E is None:
            E = expectations(bt, mo, only)
            memo[ek] = E
    else:
        E = expectations(bt, mo, only)
    nontrivial = False
    for name, e in E.items():
        tok = kv.get(name)
        if memo is not None and tok is not None:
            mk = (bt, memo_key, name, tok)
            hit = memo.get(mk)
            if hit is not None:
                res.count('comparisons')
                if hit == 2:
                    nontrivial = True
                continue
        if tok is None:
            if common.absent_ok(variant, name):
                continue
            res.violation(prop, '%s.%s:missing' % (bt, name), '%s: accessor %s not reported' % (typ, name), case, variant)
            continue
        obs = val(tok)
        if e.special == 'skip':
            res.count('skipped_by_guard')
            continue
        if obs is PANIC:
            res.violation(prop, '%s.%s:panic' % (bt, name), '%s.%s() panicked on n=%d %s' % (typ, name, n, context),
                          case, variant)
            continue
        ok, ratio = ex.check_value(obs, e)
        res.count('comparisons')
        if ratio is not None and not e.vacuous:
            res.maxi(name, ratio)
        if not ok:
            cls = 'envelope'
            if isinstance(obs, float) and (obs != obs or obs in (math.inf, -math.inf)) and e.exact is not None:
                cls = 'nonfinite'
            if e.exact is not None:
                msg = '%s.%s() = %s but exact value is %.17g, |err| = %.3g > bound %.3g (n=%d, kappa=%.3g, err/unit=%s) %s' % (
                    typ, name, show(tok), ex.approx(e.exact),
                    ex.approx(abs(Fraction(obs) - e.exact)) if ex.fin(obs) else float('nan'),
                    ex.approx(e.bound), n, ex.approx(mo.kappa), ('%.3g' % ratio) if ratio is not None else 'n/a', context)
            else:
                msg = '%s.%s() = %s but expected %r (n=%d) %s' % (typ, name, show(tok), e.special, n, context)
            res.violation(prop, '%s.%s:%s' % (bt, name, cls), msg, case, variant)
        elif e.exact is not None and not e.vacuous:
            nontrivial = True
            if memo is not None:
                memo[(bt, memo_key, name, tok)] = 2
        elif memo is not None and ok:
            memo[(bt, memo_key, name, tok)] = 1
    if nontrivial and n >= 2:
        # envelope <= 1e-3 ?
        if ex.C_KURT * n * mo.kappa * ex.U <= Fraction(1, 1000):
            return True
    return False
