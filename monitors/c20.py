"""C20 - every ingestion path builds the same estimator; concatenate! adds nothing."""
import math
import random
import time

import common
from common import Case, Result, build, run_driver, val, same_bits
import gen

PROP = 'C20'
SINGLE = ['Mean', 'Variance', 'Skewness', 'Kurtosis', 'Moments4', 'M5', 'M10', 'Min', 'Max']
PAIR = ['WeightedMean', 'WeightedMeanWithError', 'Covariance']
HEADLINE = {'Mean': 'mean', 'Variance': 'population_variance', 'Skewness': 'skewness', 'Kurtosis': 'kurtosis',
            'Min': 'min', 'Max': 'max', 'Quantile': 'quantile'}
CATS = {
    'CatMinMax': {'min': ('Min', 'min'), 'max': ('Max', 'max')},
    'CatVarQ': {'mean': ('Variance', 'mean'), 'sample_variance': ('Variance', 'sample_variance'),
                'population_variance': ('Variance', 'population_variance'), 'error': ('Variance', 'error'),
                'quantile': ('Quantile', 'quantile')},
    'Cat5': {'mean': ('Mean', 'mean'), 'kurtosis': ('Kurtosis', 'kurtosis'), 'skewness': ('Kurtosis', 'skewness'),
             'population_variance': ('Kurtosis', 'population_variance'), 'min': ('Min', 'min'), 'max': ('Max', 'max'),
             'sample_variance': ('M6', 'sample_variance'), 'sample_skewness': ('M6', 'sample_skewness'),
             'sample_excess_kurtosis': ('M6', 'sample_excess_kurtosis')},
    'CatSk3': {'skewness': ('Skewness', 'skewness'), 'error': ('Variance', 'error'), 'mean': ('Mean', 'mean')},
}
STANDALONE = ['Min', 'Max', 'Variance', 'Quantile', 'Mean', 'Kurtosis', 'M6', 'Skewness']
RULE = ('For one sequence (section-3.1 values, length 0..200, pairs for the 2-ary estimators) the estimator is built by '
        'add-in-a-loop, collect by value, collect by reference, extend by value / by reference in 1-3 pieces, default()+add, '
        'and mixtures collect(prefix)+extend(middle)+add(rest) at random or (short sequences) all split points; every '
        'accessor of every variant must be bit-identical to the add loop (NaN==NaN, +0 != -0); the add loop itself is run by '
        'method syntax and through the Estimate trait (UFCS). estimate() must be '
        'bit-identical to the headline accessor. concatenate! structs with 2, 3 and 5 fields (short and long syntax, incl. '
        'Quantile and a define_moments! type) built by new()/default()/collect (value, reference) must report for each '
        'statistic the bit pattern of the stand-alone estimator fed the same sequence. distinct_nontrivial = distinct '
        '(type, program) cases over a sequence of length >= 2.')
ASSUME = ['driver faithfully prints accessor bit patterns']


TRAIT_ADD = ('Mean', 'Variance', 'Skewness', 'Kurtosis', 'Min', 'Max', 'Quantile')


def pieces(rng, xs, arity, k):
    n = len(xs) // arity
    cuts = sorted(rng.randint(0, n) for _ in range(k - 1))
    out, prev = [], 0
    for cpos in cuts + [n]:
        out.append(xs[prev * arity:cpos * arity])
        prev = cpos
    return out


def ingestion_case(cid, typ, xs, arity, rng, splits=None):
    c = Case(cid, typ, meta={'n': len(xs) // arity})
    n = len(xs) // arity
    has_extend = typ != 'Max'
    regs = []
    c.op('N', 0)
    if xs:
        c.op('A', 0, xs)
    regs.append((0, 'add'))
    c.op('F', 1, xs)
    regs.append((1, 'collect'))
    c.op('FR', 2, xs)
    regs.append((2, 'collect_ref'))
    c.op('D', 6)
    if xs:
        c.op('A', 6, xs)
    regs.append((6, 'default+add'))
    if typ in TRAIT_ADD:
        # the add loop as generic code reaches it: Estimate::add through the trait, not method syntax on the concrete type
        c.op('N', 10)
        if xs:
            c.op('AT', 10, xs)
        regs.append((10, 'add_via_trait'))
    if splits is None:
        a = rng.randint(0, n)
        b = rng.randint(a, n)
    else:
        a, b = splits
    pre, mid, rest = xs[:a * arity], xs[a * arity:b * arity], xs[b * arity:]
    if has_extend:
        c.op('N', 3)
        for p in pieces(rng, xs, arity, rng.randint(1, 3)):
            c.op('E', 3, p)
        regs.append((3, 'extend'))
        c.op('N', 4)
        for p in pieces(rng, xs, arity, rng.randint(1, 3)):
            c.op('ER', 4, p)
        regs.append((4, 'extend_ref'))
        c.op('F', 5, pre)
        c.op('E', 5, mid)
        if rest:
            c.op('A', 5, rest)
        regs.append((5, 'collect+extend+add'))
        c.op('FR', 7, pre)
        c.op('ER', 7, mid)
        if rest:
            c.op('A', 7, rest)
        regs.append((7, 'collect_ref+extend_ref+add'))
        # extend onto a non-empty estimator built by add
        c.op('N', 8)
        if pre:
            c.op('A', 8, pre)
        c.op('E', 8, mid + rest)
        regs.append((8, 'add+extend'))
        c.op('N', 9)
        if pre:
            c.op('A', 9, pre)
        c.op('ER', 9, mid + rest)
        regs.append((9, 'add+extend_ref'))
    else:
        c.op('F', 5, pre)
        if mid + rest:
            c.op('A', 5, mid + rest)
        regs.append((5, 'collect+add'))
        c.op('FR', 7, pre + mid)
        if rest:
            c.op('A', 7, rest)
        regs.append((7, 'collect_ref+add'))
    marks = [(c.op('O', r), how) for r, how in regs]
    c.meta['marks'] = marks
    return c, marks


def judge_ingestion(c, marks, recs, typ, res, variant):
    by_op = {r.op: r for r in recs if r.kind == 'o'}
    bad = [r for r in recs if r.kind in ('p', 'e', 'd')]
    for r in bad:
        res.violation(PROP, '%s:%s' % (typ, 'panic' if r.kind == 'p' else 'harness'),
                      '%s: op %d (%s) -> %s %s' % (typ, r.op, c.ops[r.op][:60], r.kind, r.rest), c, variant)
    if bad:
        return
    base = by_op[marks[0][0]].kv
    for opi, how in marks[1:]:
        kv = by_op[opi].kv
        res.count('path_comparisons')
        res.count('path_%s' % how)
        for k in base:
            if not same_bits(base[k], kv[k]):
                res.violation(PROP, '%s:%s' % (typ, how),
                              '%s built by %s differs from the add loop: %s = %s vs %s (n=%d)' % (
                                  typ, how, k, common.show(kv[k]), common.show(base[k]), c.meta['n']), c, variant)
                break
    if typ in HEADLINE:
        for opi, how in marks:
            kv = by_op[opi].kv
            res.count('estimate_checks')
            if not same_bits(kv['estimate'], kv[HEADLINE[typ]]):
                res.violation(PROP, '%s:estimate' % typ, '%s.estimate() = %s but %s() = %s' % (
                    typ, common.show(kv['estimate']), HEADLINE[typ], common.show(kv[HEADLINE[typ]])), c, variant)
    res.count('evaluations')


def cat_cases(prefix, xs):
    cases = {}
    for t in STANDALONE:
        c = Case('%s-%s' % (prefix, t), t, [0.5] if t == 'Quantile' else [])
        c.op('N', 0)
        if xs:
            c.op('A', 0, xs)
        c.op('O', 0)
        cases[t] = c
    for t in CATS:
        c = Case('%s-%s' % (prefix, t), t, meta={'n': len(xs)})
        c.op('N', 0)
        if xs:
            c.op('A', 0, xs)
        c.op('O', 0)
        c.op('D', 1)
        if xs:
            c.op('A', 1, xs)
        c.op('O', 1)
        c.op('F', 2, xs)
        c.op('O', 2)
        c.op('FR', 3, xs)
        c.op('O', 3)
        cases[t] = c
    return cases


def judge_cat(cases, logs, res, variant):
    stand = {}
    for t in STANDALONE:
        recs = logs[cases[t].id]
        o = [r for r in recs if r.kind == 'o']
        if len(o) != 1 or any(r.kind in ('p', 'e', 'd') for r in recs):
            res.violation(PROP, '%s:harness' % t, 'stand-alone %s failed: %r' % (t, recs[:3]), cases[t], variant)
            return
        stand[t] = o[0].kv
    for t, mapping in CATS.items():
        c = cases[t]
        recs = logs[c.id]
        bad = [r for r in recs if r.kind in ('p', 'e', 'd')]
        for r in bad:
            res.violation(PROP, '%s:%s' % (t, 'panic' if r.kind == 'p' else 'harness'),
                          '%s: op %d -> %s %s' % (t, r.op, r.kind, r.rest), c, variant)
        if bad:
            continue
        obs = [r for r in recs if r.kind == 'o']
        hows = ['new+add', 'default+add', 'collect', 'collect_ref']
        for how, r in zip(hows, obs):
            for stat, (st, acc) in mapping.items():
                res.count('concatenate_comparisons')
                if not same_bits(r.kv[stat], stand[st][acc]):
                    res.violation(PROP, '%s.%s:%s' % (t, stat, how),
                                  '%s (%s).%s() = %s but stand-alone %s.%s() = %s (n=%d)' % (
                                      t, how, stat, common.show(r.kv[stat]), st, acc, common.show(stand[st][acc]), c.meta['n']),
                                  c, variant)
        res.count('evaluations')
        res.count('concatenate_cases')
        if c.meta['n'] >= 2:
            res.distinct.add(c.key())


def pair_values(rng, typ, n):
    xs, _ = gen.sequence(rng, n=n) if n else ([], None)
    out = []
    if typ == 'Covariance':
        ys, _ = gen.sequence(rng, n=n) if n else ([], None)
        for x, y in zip(xs, ys):
            out += [x, y]
    else:
        for x in xs:
            out += [x, rng.choice([0.0, 1.0, 10.0 ** rng.uniform(-6, 6), 10.0 ** rng.uniform(-6, 6)])]
    return out


def shard(desc):
    rng = random.Random(desc['seed'])
    res = Result()
    variant = desc['variant']
    cases, plan, catplan = [], [], []
    cid = 0
    for i in range(desc['nseq']):
        r = rng.random()
        n = rng.randint(0, 6) if r < 0.4 else (rng.randint(6, 40) if r < 0.85 else rng.randint(40, 200))
        xs, _ = gen.sequence(rng, n=n) if n else ([], None)
        for typ in SINGLE:
            ys = xs
            if typ in ('Min', 'Max') and n and rng.random() < 0.4:
                # ties between +0 and -0, infinities and NaN: the extreme is decided by how a tie is resolved, which the add
                # loop and collect / extend must resolve alike (bit for bit: +0 != -0)
                ys = [rng.choice([0.0, -0.0, 0.0, -0.0, 1.0, -1.0, math.inf, -math.inf, float('nan')]) for _ in xs]
                res.count('minmax_sequences_with_signed_zero_ties')
            c, marks = ingestion_case('%s-%d' % (desc['name'], cid), typ, ys, 1, rng)
            cid += 1
            cases.append(c)
            plan.append((c, marks, typ))
        for typ in PAIR:
            pv = pair_values(rng, typ, n)
            c, marks = ingestion_case('%s-%d' % (desc['name'], cid), typ, pv, 2, rng)
            cid += 1
            cases.append(c)
            plan.append((c, marks, typ))
        cc = cat_cases('%s-cat%d' % (desc['name'], i), xs)
        cases.extend(cc.values())
        catplan.append(cc)
    # long pieces (several thousand items in ONE extend call) onto a non-empty receiver
    vl_types = desc.get('verylong_types') or []
    for i in range(desc.get('nlongpiece', 0) + len(vl_types)):
        typ = rng.choice(SINGLE + PAIR)
        n = rng.randint(4200, 9000)
        if i < len(vl_types):
            typ = vl_types[i]
            n = rng.randint(66000, 80000)      # one piece beyond 2^16 items in a single extend / collect call
            res.count('very_long_piece_cases')
        ar = 2 if typ in PAIR else 1
        xs, _ = gen.sequence(rng, n=n)
        data = pair_values(rng, typ, n) if ar == 2 else xs
        c, marks = ingestion_case('%s-%d' % (desc['name'], cid), typ, data, ar, rng, splits=(rng.randint(1, 12), rng.randint(12, 40)))
        cid += 1
        cases.append(c)
        plan.append((c, marks, typ))
        res.count('long_piece_cases')
    # extend / add after the count was driven beyond 2^32 by repeated self-merging
    for i in range(desc.get('nhuge', 0)):
        typ = rng.choice([t for t in SINGLE + PAIR if t not in ('Min', 'Max')])
        ar = 2 if typ in PAIR else 1
        base = pair_values(rng, typ, 3) if ar == 2 else gen.sequence(rng, n=3)[0]
        more = pair_values(rng, typ, 6) if ar == 2 else gen.sequence(rng, n=6)[0]
        c = Case('%s-%d' % (desc['name'], cid), typ, meta={'n': 9, 'huge': True})
        cid += 1
        c.op('N', 0)
        c.op('A', 0, base)
        for _ in range(rng.choice([32, 33, 40])):
            c.op('M', 0, 0)
        regs = [(0, 'add')]
        for r_, code, how in ((1, 'E', 'extend'), (2, 'ER', 'extend_ref')):
            c.op(rng.choice(['K', 'KF']), r_, 0)
            c.op(code, r_, more[:2 * ar])
            c.op(code, r_, more[2 * ar:])
            regs.append((r_, how))
        c.op('A', 0, more)
        marks = [(c.op('O', r_), how) for r_, how in regs]
        c.meta['marks'] = marks
        cases.append(c)
        plan.append((c, marks, typ))
        res.count('huge_count_cases')
    # all split points for short sequences
    for i in range(desc.get('nshort', 0)):
        n = rng.randint(1, 5)
        xs, _ = gen.sequence(rng, n=n)
        typ = rng.choice(SINGLE + PAIR)
        ar = 2 if typ in PAIR else 1
        data = pair_values(rng, typ, n) if ar == 2 else xs
        for a in range(n + 1):
            for b in range(a, n + 1):
                c, marks = ingestion_case('%s-%d' % (desc['name'], cid), typ, data, ar, rng, splits=(a, b))
                cid += 1
                cases.append(c)
                plan.append((c, marks, typ))
                res.count('all_split_cases')
    logs = run_driver(desc['binary'], ''.join(c.text() for c in cases))
    for c, marks, typ in plan:
        recs = logs.get(c.id)
        if recs is None:
            res.inconclusive.append('case %s missing' % c.id)
            continue
        judge_ingestion(c, marks, recs, typ, res, variant)
        res.count('cases_%s' % typ)
        if c.meta['n'] >= 2:
            res.distinct.add(c.key())
        if len(res.samples) < 2 and 2 <= c.meta['n'] <= 4:
            res.sample({'type': typ, 'program': c.ops})
    for cc in catplan:
        judge_cat(cc, logs, res, variant)
    return res


def run(tier, seed):
    t0 = time.time()
    total = Result()
    if tier == 'quick':
        nseq, nshort, variants, mult = 3000, 1000, [('release', 1.0), ('dev', 0.3), ('plain', 0.2)], 1
    else:
        nseq, nshort, variants, mult = 60000, 20000, [('release', 1.0), ('dev', 0.2), ('std', 0.1), ('plain', 0.1)], 8
    try:
        for variant, frac in variants:
            binary = build(variant)
            nsh = common.NPROC * mult
            descs = [{'name': '%s%d' % (variant[0], s), 'variant': variant, 'binary': binary,
                      'nseq': max(1, int(nseq * frac) // nsh), 'nshort': max(1, int(nshort * frac) // nsh),
                      'nlongpiece': 3, 'nhuge': 6, 'verylong_types': ((SINGLE + PAIR)[s::4] if (s < 4 and variant == 'release') else []),
                      'seed': seed * 1000003 + s * 7919 + sum(map(ord, variant))} for s in range(nsh)]
            total.merge(common.run_shards(shard, descs))
    except common.Inconclusive as e:
        total.inconclusive.append(str(e))
    need = {'long_piece_cases': 20, 'very_long_piece_cases': 12, 'huge_count_cases': 40, 'path_comparisons': 5000, 'estimate_checks': 2000, 'concatenate_comparisons': 2000, 'all_split_cases': 200}
    for t in SINGLE + PAIR:
        need['cases_%s' % t] = 50
    return common.finish(PROP, tier, seed, total, RULE, t0, ASSUME, min_events=need,
                         extra={'builds': [v for v, _ in variants]})


def rejudge(case, recs, res, variant, v):
    if 'marks' not in case.meta:
        print('  note: concatenate! findings compare several cases; re-run ./check C20 to re-evaluate')
        return
    judge_ingestion(case, [tuple(m) for m in case.meta['marks']], recs, case.type, res, variant)
