"""C18 - a serde round trip at any point is invisible to the rest of the computation."""
import random
import time

import common
from common import Case, Result, build, run_driver, val, same_bits
import gen
from c11 import kv_equal

PROP = 'C18'
EST = ['Mean', 'Variance', 'Skewness', 'Kurtosis', 'Moments4', 'M6', 'M10', 'Min', 'Max',
       'WeightedMean', 'WeightedMeanWithError', 'Covariance']
HISTS = ['H3', 'H10', 'H100', 'Histogram10']
ARITY = {'WeightedMean': 2, 'WeightedMeanWithError': 2, 'Covariance': 2}
RULE = ('A program P (adds, merges, clones over 3 registers; adds only for Quantile; add / merge / += / *= / reset for '
        'define_histogram! types) over finite section-3.1 values is run uninterrupted and, for EVERY position k in 0..|P| '
        'and both lossless formats (JSON text via serde_json with float_roundtrip; serde_json::Value tree), with every '
        'register whose fields are finite replaced at position k by deserialize(serialize(register)); the final '
        'observations of all registers (every public accessor) must be bit-identical to the uninterrupted run. '
        'Also: serialising without restoring (SO) changes nothing. Special programs: sample sizes beyond 2^53 (self-merging, '
        'histogram *= by large factors) and Min/Max over +-0, subnormals and the largest finite values. Quantile checkpoints include the <5-observation phase '
        'and the 5th observation. distinct_nontrivial = distinct (type, program, k, format) variants with >=1 non-empty '
        'register round-tripped and >=1 op executed after the restore.')
ASSUME = ['driver faithfully prints accessor bit patterns',
          'serde_json with float_roundtrip is lossless for finite f64, u64 and i64 (cross-checked by the Value-tree format)']


def gen_program(rng, typ, L):
    """-> (ops list (without observations), nonempty-tracking) ; ops are tuples"""
    arity = ARITY.get(typ, 1)
    vals, _ = gen.sequence(rng, n=max(4, L), scale_range=(-8, 8), max_offset_exp=9)
    collinear = None
    if typ == 'Covariance':
        v2, _ = gen.sequence(rng, n=max(4, L), scale_range=(-8, 8), max_offset_exp=9)
        if rng.random() < 0.4:
            # exactly / nearly collinear pairs on badly conditioned coordinates (timestamps): y = a*x + b
            x0 = rng.choice([1.6e9, 1e7, 3.0e5, 1e12])
            step = rng.choice([0.1, 1.0, 0.001])
            a, b = rng.choice([1.0, -0.3, 2.5]), rng.choice([0.0, 7.0, -1e6])
            vals = [x0 + step * i for i in range(max(4, L) * 3)]
            collinear = {x: a * x + b for x in vals}
    ops = []
    for i in range(L):
        r = rng.random()
        if typ == 'Quantile' or r < 0.7:
            reg = 0 if typ == 'Quantile' else rng.randrange(3)
            k = rng.randint(1, 6) if typ == 'Quantile' else rng.randint(1, 3)
            xs = []
            for _ in range(k):
                x = rng.choice(vals)
                if arity == 2:
                    if collinear is not None:
                        y = collinear[x]
                    else:
                        y = rng.choice(v2) if typ == 'Covariance' else rng.choice([0.0, 1.0, 10.0 ** rng.uniform(-6, 6)])
                    xs += [x, y]
                else:
                    xs.append(x)
            ops.append(('A', reg, xs))
        elif r < 0.9:
            ops.append(('M', rng.randrange(3), rng.randrange(3)))
        else:
            a, b = rng.sample(range(3), 2)
            ops.append((rng.choice(['K', 'KF']), a, b))
    return ops


def gen_hist_program(rng, typ, L):
    n = 10 if typ == 'Histogram10' else int(typ[1:])
    kind = rng.randrange(3)
    if kind == 0:
        edges = [float(i) for i in range(n + 1)]
    elif kind == 1:
        edges = sorted(rng.uniform(-100, 100) for _ in range(n + 1))
    else:
        e = sorted(rng.choice([-2.0, 0.0, 0.0, 1.5, 3.0, 1e9]) for _ in range(n + 1))
        edges = e
        if edges[0] == edges[-1]:
            edges[-1] = edges[0] + 1.0
    ops = []
    lo, hi = edges[0], edges[-1]
    for i in range(L):
        r = rng.random()
        if r < 0.6:
            xs = [rng.choice([rng.uniform(lo, hi), rng.choice(edges), lo - 1.0, hi + 1.0]) for _ in range(rng.randint(1, 4))]
            ops.append(('HA', rng.randrange(3), xs))
        elif r < 0.75:
            ops.append(('M', rng.randrange(3), rng.randrange(3)))
        elif r < 0.85:
            ops.append(('H+', rng.randrange(3), rng.randrange(3)))
        elif r < 0.92:
            ops.append(('H*', rng.randrange(3), rng.randint(0, 3)))
        elif r < 0.96:
            ops.append(('HZ', rng.randrange(3), None))
        else:
            a, b = rng.sample(range(3), 2)
            ops.append((rng.choice(['K', 'KF']), a, b))
    return ops, edges


TINY = [0.0, -0.0, 5e-324, -5e-324, 1e-310, -1e-310, 2.2250738585072014e-308, -2.2250738585072014e-308, 1.0, -1.0, 1.7976931348623157e308,
        -1.7976931348623157e308]


def special_program(rng, types):
    """Programs aimed at the corners of the serialised representation: sample sizes beyond 2^53 (reached by repeated
    self-merging / histogram *= with large factors, then made odd by single adds, so a count that takes a detour through f64
    comes back changed), and Min/Max whose extremum is +-0, a subnormal or the largest finite value."""
    kind = rng.randrange(3)
    if kind == 0:
        typ = rng.choice(['Min', 'Max'])
        ops = []
        for _ in range(rng.randint(2, 7)):
            r = rng.random()
            if r < 0.75:
                ops.append(('A', rng.randrange(3), [rng.choice(TINY) for _ in range(rng.randint(1, 2))]))
            elif r < 0.9:
                ops.append(('M', rng.randrange(3), rng.randrange(3)))
            else:
                a, b = rng.sample(range(3), 2)
                ops.append((rng.choice(['K', 'KF']), a, b))
        return typ, ops, None
    if kind == 1:
        typ = rng.choice([t for t in types if t in HISTS])
        n = 10 if typ == 'Histogram10' else int(typ[1:])
        edges = [float(i) for i in range(n + 1)]
        ops = [('HA', 0, [rng.uniform(0, n) for _ in range(rng.randint(1, 3))]),
               ('H*', 0, rng.choice([2 ** 30, 2 ** 27 + 1])), ('H*', 0, rng.choice([2 ** 24, 2 ** 25 + 3])),
               ('HA', 0, [rng.uniform(0, n) for _ in range(rng.randint(1, 3))]),
               ('K', 1, 0), ('HA', 1, [rng.uniform(0, n)]), ('H+', 0, 1), ('HA', 0, [rng.uniform(0, n)])]
        return typ, ops, edges
    typ = rng.choice([t for t in types if t not in HISTS and t not in ('Min', 'Max', 'Quantile')])
    arity = ARITY.get(typ, 1)

    def pt():
        x = float(rng.randint(-20, 20)) + rng.choice([0.0, 0.5, 0.25])
        return [x, float(rng.randint(1, 9))] if arity == 2 else [x]
    ops = [('A', 0, pt() + pt() + pt())]
    ops += [('M', 0, 0)] * rng.choice([52, 53, 54, 60])
    ops += [('A', 0, pt()), ('K', 1, 0), ('A', 1, pt()), ('M', 0, 1), ('A', 0, pt())]
    return typ, ops, None


def emit(c, typ, ops, k, fmt, mode, edges=None):
    """Emit program with checkpoint at position k (k=None: baseline).  Returns
    (marks, n_roundtripped_nonempty, ops_after)."""
    is_hist = edges is not None
    nregs = 1 if typ == 'Quantile' else 3
    counts = [0] * 3
    for r in range(nregs):
        if is_hist:
            c.op('HR', r, edges)
        else:
            c.op('N', r)
    rt = 0

    def checkpoint():
        nonlocal rt
        for r in range(nregs):
            if typ in ('Min', 'Max') and counts[r] == 0:
                continue    # empty Min/Max hold +-inf: outside "fields are finite"
            c.op(mode, r, fmt)
            if counts[r] > 0:
                rt += 1
    for i, op in enumerate(ops):
        if k == i:
            checkpoint()
        code = op[0]
        if code == 'A':
            c.op('A', op[1], op[2])
            counts[op[1]] += 1
        elif code == 'HA':
            c.op('HA', op[1], op[2])
            counts[op[1]] += 1
        elif code in ('M', 'H+'):
            c.op(code, op[1], op[2])
            counts[op[1]] += counts[op[2]]
        elif code in ('K', 'KF'):
            c.op(code, op[1], op[2])
            counts[op[1]] = counts[op[2]]
        elif code == 'H*':
            c.op('H*', op[1], op[2])
        elif code == 'HZ':
            c.op('HZ', op[1])
    if k == len(ops):
        checkpoint()
    marks = [c.op('O', r) for r in range(nregs)]
    return marks, rt, (len(ops) - k) if k is not None else 0


def shard(desc):
    rng = random.Random(desc['seed'])
    res = Result()
    variant = desc['variant']
    cases, groups = [], []
    cid = 0
    work = []
    for i in range(desc['nprog']):
        typ = rng.choice(desc['types'])
        L = rng.randint(1, desc['maxlen'])
        if typ == 'Quantile':
            # long enough for a restored marker state to influence later marker moves
            L = rng.randint(3, max(desc['maxlen'], 40))
        edges = None
        params = []
        if typ in HISTS:
            ops, edges = gen_hist_program(rng, typ, L)
        else:
            ops = gen_program(rng, typ, L)
            if typ == 'Quantile':
                params = [rng.choice([0.0, 0.25, 0.5, 0.9, 1.0, 0.1, 0.3, 0.7, rng.random(), rng.random()])]
                # make streams long enough to cross the 5-observation boundary often
        work.append((typ, ops, edges, params))
    for i in range(desc.get('nspecial', 0)):
        typ, ops, edges = special_program(rng, desc['types'])
        work.append((typ, ops, edges, []))
        res.count('special_programs')
    for typ, ops, edges, params in work:
        base = Case('%s-%d' % (desc['name'], cid), typ, params)
        cid += 1
        bm, _, _ = emit(base, typ, ops, None, 'j', 'S', edges)
        cases.append(base)
        variants = []
        positions = list(range(len(ops) + 1))
        if len(positions) > desc['maxpos']:
            positions = sorted(rng.sample(positions, desc['maxpos']))
        for k in positions:
            for fmt in ('j', 'v'):
                c = Case('%s-%d' % (desc['name'], cid), typ, params, meta={'k': k, 'fmt': fmt, 'mode': 'S'})
                cid += 1
                m, rt, after = emit(c, typ, ops, k, fmt, 'S', edges)
                cases.append(c)
                variants.append((c, m, rt, after))
            if rng.random() < 0.25:
                c = Case('%s-%d' % (desc['name'], cid), typ, params, meta={'k': k, 'fmt': 'j', 'mode': 'SO'})
                cid += 1
                m, rt, after = emit(c, typ, ops, k, rng.choice(['j', 'v']), 'SO', edges)
                cases.append(c)
                variants.append((c, m, rt, after))
        groups.append((typ, base, bm, variants))
    for i in range(desc.get('nlong', 0)):
        # long Quantile streams (beyond 2^16 observations) checkpointed near the end, then continued
        typ = 'Quantile'
        p = rng.choice([0.1, 0.3, 0.9, 0.99, 1.0 / 3.0, 0.5])
        n = rng.choice([70000, 90000])
        stream = [rng.gauss(0, 1) * 100 for _ in range(n)]
        tail = [rng.gauss(0, 1) * 100 for _ in range(7)]
        ops = [('A', 0, stream)] + [('A', 0, [x]) for x in tail]
        base = Case('%s-%d' % (desc['name'], cid), typ, [p])
        cid += 1
        bm, _, _ = emit(base, typ, ops, None, 'j', 'S', None)
        cases.append(base)
        variants = []
        for k in (1, 4):
            for fmt in ('j', 'v'):
                c = Case('%s-%d' % (desc['name'], cid), typ, [p], meta={'k': k, 'fmt': fmt, 'mode': 'S'})
                cid += 1
                m, rt, after = emit(c, typ, ops, k, fmt, 'S', None)
                cases.append(c)
                variants.append((c, m, rt, after))
        groups.append((typ, base, bm, variants))
        res.count('long_quantile_programs')
    logs = run_driver(desc['binary'], ''.join(c.text() for c in cases))
    for typ, base, bm, variants in groups:
        brecs = logs.get(base.id)
        if brecs is None or any(r.kind in ('e', 'd') for r in brecs):
            res.inconclusive.append('baseline case %s failed: %r' % (base.id, [r for r in (brecs or []) if r.kind in ('e', 'd')][:2]))
            continue
        bobs = {r.op: r.kv for r in brecs if r.kind == 'o'}
        bpan = sorted((r.op) for r in brecs if r.kind == 'p')
        res.count('programs')
        res.count('programs_%s' % typ)
        for c, m, rt, after in variants:
            recs = logs.get(c.id)
            if recs is None:
                res.inconclusive.append('case %s missing' % c.id)
                continue
            res.count('evaluations')
            mode = c.meta['mode']
            bad = [r for r in recs if r.kind in ('e', 'd')]
            if bad:
                r = bad[0]
                res.violation(PROP, '%s:roundtrip-failed' % typ,
                              '%s: %s at position %d (format %s) failed: %s' % (typ, mode, c.meta['k'], c.meta['fmt'], r.rest), c, variant)
                continue
            vpan = [r for r in recs if r.kind == 'p']
            if len(vpan) != len(bpan):
                res.violation(PROP, '%s:panic-differs' % typ,
                              '%s: panics differ from the uninterrupted run after a round trip at %d: %r' % (
                                  typ, c.meta['k'], [r.rest for r in vpan][:2]), c, variant)
                continue
            obs = {r.op: r.kv for r in recs if r.kind == 'o'}
            ok = True
            for mo_b, mo_v in zip(bm, m):
                eq, why = kv_equal(bobs[mo_b], obs[mo_v])
                res.count('register_comparisons')
                if not eq:
                    ok = False
                    res.violation(PROP, '%s:%s' % (typ, 'serialize-modifies' if mode == 'SO' else 'roundtrip-visible'),
                                  '%s: %s at position %d of %d (format %s) changed the final result: %s' % (
                                      typ, 'serialising' if mode == 'SO' else 'a serde round trip', c.meta['k'],
                                      len(base.ops), c.meta['fmt'], why), c, variant,
                                  detail={'baseline': base.to_json(), 'baseline_marks': bm, 'marks': m})
                    break
            if mode == 'S':
                res.count('roundtrip_variants')
                if rt > 0 and after > 0:
                    res.distinct.add(c.key())
                    res.count('nontrivial_variants')
                if typ == 'Quantile' and rt > 0:
                    res.count('quantile_checkpoints')
            else:
                res.count('serialize_only_variants')
        if len(res.samples) < 2 and len(base.ops) < 14 and variants:
            res.sample({'type': typ, 'baseline_program': base.ops, 'one_variant': variants[len(variants) // 2][0].ops})
    return res


def miri_leg(seed, res):
    """serde-big-array builds arrays through MaybeUninit: run histogram + Quantile round trips
    under Miri."""
    rng = random.Random(seed)
    cases = []
    for typ in ['H3', 'H10', 'H100', 'Quantile', 'M10']:
        edges = None
        if typ in HISTS:
            ops, edges = gen_hist_program(rng, typ, 5)
        else:
            ops = gen_program(rng, typ, 7)
        params = [0.5] if typ == 'Quantile' else []
        base = Case('miri-%s-base' % typ, typ, params)
        bm, _, _ = emit(base, typ, ops, None, 'j', 'S', edges)
        var = []
        for k, fmt in ((2, 'j'), (len(ops), 'v')):
            c = Case('miri-%s-%d%s' % (typ, k, fmt), typ, params, meta={'k': k, 'fmt': fmt, 'mode': 'S'})
            m, rt, after = emit(c, typ, ops, k, fmt, 'S', edges)
            var.append((c, m))
        cases.append((typ, base, bm, var))
    text = ''.join(b.text() + ''.join(c.text() for c, _ in var) for _, b, _, var in cases)
    logs, report = common.run_miri(text, tag='c18')
    if report is not None:
        res.violation(PROP, 'miri:ub-report', 'Miri reported undefined behaviour / a data race in a serde round trip: %s' % report[-1500:], None, 'miri')
        return
    log = logs[0]
    for typ, base, bm, var in cases:
        bobs = {r.op: r.kv for r in log[base.id] if r.kind == 'o'}
        for c, m in var:
            obs = {r.op: r.kv for r in log[c.id] if r.kind == 'o'}
            for a, b in zip(bm, m):
                eq, why = kv_equal(bobs[a], obs[b])
                res.count('miri_comparisons')
                if not eq:
                    res.violation(PROP, '%s:roundtrip-visible' % typ, 'under Miri: %s round trip visible: %s' % (typ, why), c, 'miri')
    res.count('miri_runs')


def run(tier, seed):
    t0 = time.time()
    total = Result()
    types = EST + HISTS + ['Quantile', 'Quantile']
    if tier == 'quick':
        nprog, maxlen, maxpos, variants, mult = 2400, 14, 15, [('release', 1.0), ('dev', 0.3)], 1
    else:
        nprog, maxlen, maxpos, variants, mult = 12000, 40, 41, [('release', 1.0), ('dev', 0.2)], 8
    try:
        for variant, frac in variants:
            binary = build(variant)
            nsh = common.NPROC * mult
            descs = [{'name': '%s%d' % (variant[0], s), 'variant': variant, 'binary': binary, 'types': types,
                      'nprog': max(1, int(nprog * frac) // nsh), 'maxlen': maxlen, 'maxpos': maxpos,
                      'nlong': (1 if s < (2 if tier == 'quick' else 16) and variant == 'release' else 0),
                      'nspecial': 6 if tier == 'quick' else 12,
                      'seed': seed * 1000003 + s * 7919 + sum(map(ord, variant))} for s in range(nsh)]
            total.merge(common.run_shards(shard, descs))
        if tier == 'thorough':
            miri_leg(seed, total)
    except common.Inconclusive as e:
        total.inconclusive.append(str(e))
    need = {'nontrivial_variants': 2000, 'serialize_only_variants': 200, 'quantile_checkpoints': 100, 'long_quantile_programs': 2, 'special_programs': 100}
    for t in EST + HISTS + ['Quantile']:
        need['programs_%s' % t] = 5
    if tier == 'thorough':
        need['miri_runs'] = 1
    return common.finish(PROP, tier, seed, total, RULE, t0, ASSUME, min_events=need,
                         extra={'builds': [v for v, _ in variants] + (['miri'] if tier == 'thorough' else []),
                                'every_position': True})


def rejudge(case, recs, res, variant, v):
    d = v.get('detail') or {}
    if 'baseline' not in d:
        bad = [r for r in recs if r.kind in ('e', 'd')]
        if bad:
            res.violation(PROP, v['signature'], 'round trip still fails: %s' % bad[0].rest, case, variant)
        return
    base = Case.from_json(d['baseline'])
    blog = run_driver(build(variant), base.text())[base.id]
    bobs = {r.op: r.kv for r in blog if r.kind == 'o'}
    obs = {r.op: r.kv for r in recs if r.kind == 'o'}
    res.count('evaluations')
    for a, b in zip(d['baseline_marks'], d['marks']):
        eq, why = kv_equal(bobs[a], obs[b])
        if not eq:
            res.violation(PROP, v['signature'], 'the checkpointed run still differs from the uninterrupted run: %s' % why, case, variant)
            return
