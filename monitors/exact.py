"""Exact reference statistics.  An f64 is a dyadic rational; everything here is computed in
integer / rational arithmetic, square roots to ~2^-200 relative precision via isqrt, so the
oracle's own error is dozens of orders of magnitude below any envelope."""
import math
from fractions import Fraction

U = Fraction(1, 2 ** 53)

# ---- envelope constants (DESIGN.md section 2).  Fixed; never re-fitted at run time. ----
C_MEAN = 8
C_VAR = 8
C_ERR = 8
C_SKEW = 16
C_KURT = 32
C_COV = 8
C_PEARSON = 8
C_SSKEW = 32
C_SKURT = 64
C_WMEAN = 16
C_WSUM = 8
C_WVAR = 16


def c_moment(p):
    return 2 ** (p + 1)


_BINOM = {}


def binom(n, k):
    key = (n, k)
    v = _BINOM.get(key)
    if v is None:
        v = math.comb(n, k)
        _BINOM[key] = v
    return v


def scale_ints(xs):
    """xs: floats -> (X list of ints, D int) with x_i = X_i / D, D a power of two."""
    ratios = [x.as_integer_ratio() for x in xs]
    D = 1
    for _, d in ratios:
        if d > D:
            D = d
    return [n * (D // d) for n, d in ratios], D


def sqrt_frac(q, bits=220):
    """Rational approximation of sqrt(q), relative error < 2^-(bits-2)."""
    if q <= 0:
        return Fraction(0)
    num, den = q.numerator, q.denominator
    # want isqrt(num * 2^(2k) / den) with ~bits significant bits
    cur = num.bit_length() - den.bit_length()
    k = max(0, (2 * bits - cur) // 2 + 2)
    v = math.isqrt((num << (2 * k)) // den)
    return Fraction(v, 1 << k)


def pow15_frac(q, bits=220):
    """q^(3/2)"""
    return q * sqrt_frac(q, bits)


class Moments:
    """Exact statistics of a multiset of floats up to order P."""
    __slots__ = ('n', 'P', 'mean', 'm', 'a', 'M', 'sigma', 'kappa', 'minv', 'maxv')

    def central(self, p):
        if p == 0:
            return Fraction(1)
        if p == 1:
            return Fraction(0)
        return self.m[p]

    def absmom(self, p):
        if p % 2 == 0:
            return self.m[p]
        return self.a[p]


def moments_from_ints(X, D, P, need_abs=True):
    n = len(X)
    R1 = sum(X)
    mo = Moments()
    mo.n = n
    mo.P = P
    mo.mean = Fraction(R1, n * D)
    dev = [n * x - R1 for x in X]          # n*(x - mean)*D
    mo.m = {}
    mo.a = {}
    nd = n * D
    for p in range(2, P + 1):
        s = 0
        if p % 2 == 0:
            for d in dev:
                s += d ** p
            mo.m[p] = Fraction(s, n * nd ** p)
        else:
            sa = 0
            for d in dev:
                t = d ** p
                s += t
                sa += -t if t < 0 else t
            mo.m[p] = Fraction(s, n * nd ** p)
            if need_abs:
                mo.a[p] = Fraction(sa, n * nd ** p)
    mx = max(abs(x) for x in X)
    mo.M = Fraction(mx, D)
    mo.minv = Fraction(min(X), D)
    mo.maxv = Fraction(max(X), D)
    if P >= 2 and mo.m[2] > 0:
        mo.sigma = sqrt_frac(mo.m[2])
        mo.kappa = 1 + mo.M / mo.sigma
    else:
        mo.sigma = Fraction(0)
        mo.kappa = None
    return mo


def moments_weighted(xs, counts, P, need_abs=True):
    """Exact moments of the multiset in which xs[i] occurs counts[i] times (counts: positive ints, possibly
    astronomically large - used for estimators whose sample size was driven up by repeated self-merging)."""
    X, D = scale_ints(xs)
    n = sum(counts)
    R1 = sum(c * x for c, x in zip(counts, X))
    mo = Moments()
    mo.n = n
    mo.P = P
    mo.mean = Fraction(R1, n * D)
    dev = [n * x - R1 for x in X]
    nd = n * D
    mo.m = {}
    mo.a = {}
    for p in range(2, P + 1):
        s_ = sum(c * d ** p for c, d in zip(counts, dev))
        mo.m[p] = Fraction(s_, n * nd ** p)
        if p % 2 == 1 and need_abs:
            sa = sum(c * abs(d) ** p for c, d in zip(counts, dev))
            mo.a[p] = Fraction(sa, n * nd ** p)
    mo.M = Fraction(max(abs(x) for x in X), D)
    mo.minv = Fraction(min(X), D)
    mo.maxv = Fraction(max(X), D)
    if P >= 2 and mo.m[2] > 0:
        mo.sigma = sqrt_frac(mo.m[2])
        mo.kappa = 1 + mo.M / mo.sigma
    else:
        mo.sigma = Fraction(0)
        mo.kappa = None
    return mo


def moments(xs, P, need_abs=True):
    X, D = scale_ints(xs)
    return moments_from_ints(X, D, P, need_abs)


def fin(x):
    return isinstance(x, float) and x == x and x not in (math.inf, -math.inf)


def approx(fr):
    """Fraction -> float for reporting only (never used in a verdict)."""
    try:
        return float(fr)
    except OverflowError:
        return math.inf if fr > 0 else -math.inf


def ratio_to_float(num, den):
    if den == 0:
        return math.inf if num != 0 else 0.0
    try:
        return float(Fraction(num) / Fraction(den))
    except OverflowError:
        return math.inf


class Expect:
    """An expectation for one statistic: exact value and absolute error bound (both exact
    rationals), or a special."""
    __slots__ = ('exact', 'bound', 'unit', 'special', 'vacuous')

    def __init__(self, exact=None, bound=None, unit=None, special=None, vacuous=False):
        self.exact = exact      # Fraction
        self.bound = bound      # Fraction: |obs - exact| <= bound
        self.unit = unit        # Fraction: n*kappa*u*scale (ratio denominators)
        self.special = special  # 'nan' | 'skip' | ('exact', float)
        self.vacuous = vacuous


def check_value(obs, ex):
    """-> (ok, ratio or None).  obs is a python float (or PANIC)."""
    if ex.special == 'skip':
        return True, None
    if not isinstance(obs, float):
        return False, None
    if ex.special == 'nan':
        return obs != obs, None
    if ex.special is not None and ex.special[0] == 'exact':
        want = ex.special[1]
        return (obs == want), None
    if obs != obs or obs in (math.inf, -math.inf):
        return False, None
    diff = abs(Fraction(obs) - ex.exact)
    ok = diff <= ex.bound
    ratio = None
    if ex.unit is not None and ex.unit > 0:
        ratio = ratio_to_float(diff, ex.unit)
    return ok, ratio


VACUOUS = Fraction(1, 8)


def env(mo, C, scale):
    """-> (bound, unit, vacuous) for a statistic with natural scale `scale`."""
    unit = mo.n * mo.kappa * U * scale
    return C * unit, unit, (C * mo.n * mo.kappa * U >= VACUOUS)


def representable(mo, P):
    """Underflow / overflow guard of DESIGN.md section 2: sigma^P >= 1e-280 and n*M^P <= 1e300."""
    if mo.sigma == 0:
        return False
    if mo.sigma ** P < Fraction(1, 10 ** 280):
        return False
    if mo.n * mo.M ** P > 10 ** 300:
        return False
    return True
