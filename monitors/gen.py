"""Workload generators: value sequences (DESIGN.md 3.1) and merge histories (3.2)."""
import math
import random

from common import nextafter_up, nextafter_down

SHAPES = ('normal', 'exp_pos', 'exp_neg', 'bimodal', 'outlier', 'twopoint', 'arith', 'smallint',
          'lognormal', 'ulp')


def clampC01(x):
    """Domain of C01: |x| in {0} U [1e-30, 1e30], finite."""
    if x != x or x in (math.inf, -math.inf):
        return 0.0
    a = abs(x)
    if a == 0.0:
        return 0.0
    if a < 1e-30:
        return math.copysign(1e-30, x)
    if a > 1e30:
        return math.copysign(1e30, x)
    return x


def shape_values(rng, shape, n):
    if shape == 'normal':
        return [rng.gauss(0.0, 1.0) for _ in range(n)]
    if shape == 'exp_pos':
        return [rng.expovariate(1.0) for _ in range(n)]
    if shape == 'exp_neg':
        return [-rng.expovariate(1.0) for _ in range(n)]
    if shape == 'bimodal':
        return [rng.gauss(-3.0, 0.5) if rng.random() < 0.4 else rng.gauss(2.0, 1.0) for _ in range(n)]
    if shape == 'outlier':
        k = rng.randrange(n)
        out = rng.choice([-1.0, 1.0]) * 10 ** rng.uniform(0.5, 3)
        return [out if i == k else 1.0 for i in range(n)]
    if shape == 'twopoint':
        a, b = rng.uniform(-2, 2), rng.uniform(-2, 2)
        if a == b:
            b = a + 1.0
        q = rng.uniform(0.05, 0.95)
        v = [a if rng.random() < q else b for _ in range(n)]
        if n >= 2 and all(x == v[0] for x in v):
            v[rng.randrange(n)] = b if v[0] == a else a
        return v
    if shape == 'arith':
        a, d = rng.uniform(-5, 5), rng.choice([-1, 1]) * rng.uniform(0.01, 3)
        return [a + d * i for i in range(n)]
    if shape == 'smallint':
        k = rng.randint(2, 5)
        lo = rng.randint(-3, 3)
        return [float(rng.randint(lo, lo + k)) for _ in range(n)]
    if shape == 'lognormal':
        s = rng.choice([-1.0, 1.0])
        return [s * math.exp(rng.gauss(0, 1.5)) for _ in range(n)]
    if shape == 'ulp':
        base = rng.uniform(1.0, 2.0)
        vals = [base]
        for _ in range(3):
            vals.append(nextafter_up(vals[-1]))
        return [rng.choice(vals) for _ in range(n)]
    raise ValueError(shape)


def order_variants(rng, xs, kinds=None):
    """Yield (order-name, reordered copy)."""
    kinds = kinds or ('asgen', 'asc', 'desc', 'abs', 'shuffled')
    for k in kinds:
        if k == 'asgen':
            yield k, list(xs)
        elif k == 'asc':
            yield k, sorted(xs)
        elif k == 'desc':
            yield k, sorted(xs, reverse=True)
        elif k == 'abs':
            yield k, sorted(xs, key=abs)
        elif k == 'absdesc':
            yield k, sorted(xs, key=abs, reverse=True)
        elif k == 'shuffled':
            c = list(xs)
            rng.shuffle(c)
            yield k, c


def pick_len(rng, maxlen=400, long_prob=0.02, long_max=10000):
    r = rng.random()
    if r < 0.5:
        return rng.randint(1, 12)
    if r < 1 - long_prob:
        return rng.randint(12, maxlen)
    return rng.randint(1000, long_max)


def sequence(rng, n=None, shape=None, scale_range=(-28, 28), max_offset_exp=12, offset_prob=0.5,
             need_spread=False):
    """One C01-domain sequence with meta."""
    for _ in range(100):
        if shape is None:
            sh = rng.choice(SHAPES)
        else:
            sh = shape
        nn = n if n is not None else pick_len(rng)
        base = shape_values(rng, sh, nn)
        lo, hi = min(base), max(base)
        spread = max(hi - lo, abs(hi), abs(lo), 1e-3)
        sc_exp = rng.uniform(*scale_range)
        offset_exp = None
        if rng.random() < offset_prob and max_offset_exp > 0:
            offset_exp = rng.uniform(0, max_offset_exp)
            # keep |x| <= 1e30
            if sc_exp + offset_exp > 29.5:
                sc_exp = 29.5 - offset_exp
        sc = 10.0 ** sc_exp
        off = 0.0
        if offset_exp is not None:
            off = rng.choice([-1.0, 1.0]) * spread * (10.0 ** offset_exp)
        xs = [clampC01((b + off) * sc) for b in base]
        if need_spread and (len(set(xs)) < 2):
            continue
        return xs, {'shape': sh, 'scale_exp': round(sc_exp, 2), 'offset_exp': None if offset_exp is None else round(offset_exp, 2)}
    raise RuntimeError('could not generate a sequence with spread')


# ------------------------------------------------------------------ merge histories

def compositions(n, k):
    """All ways to cut a sequence of length n into k contiguous, possibly empty chunks:
    yields tuples of k sizes."""
    if k == 1:
        yield (n,)
        return
    for first in range(n + 1):
        for rest in compositions(n - first, k - 1):
            yield (first,) + rest


def tree_shapes(lo, hi):
    """All binary tree shapes over leaves lo..hi-1 (in order): leaf = int, node = (l, r)."""
    if hi - lo == 1:
        yield lo
        return
    for mid in range(lo + 1, hi):
        for l in tree_shapes(lo, mid):
            for r in tree_shapes(mid, hi):
                yield (l, r)


def orientations(tree):
    """All assignments of merge orientation to internal nodes: node = (l, r, o);
    o = 0: l.merge(&r), o = 1: r.merge(&l)."""
    if isinstance(tree, int):
        yield tree
        return
    l, r = tree
    for lo in orientations(l):
        for ro in orientations(r):
            yield (lo, ro, 0)
            yield (lo, ro, 1)


def random_tree(rng, lo, hi, profile='random'):
    if hi - lo == 1:
        return lo
    if profile == 'left':
        mid = hi - 1
    elif profile == 'right':
        mid = lo + 1
    elif profile == 'balanced':
        mid = (lo + hi) // 2
    else:
        mid = rng.randint(lo + 1, hi - 1)
    return (random_tree(rng, lo, mid, profile), random_tree(rng, mid, hi, profile), rng.randint(0, 1))


def random_composition(rng, n, k, profile=None):
    profile = profile or rng.choice(['uniform', 'balanced', 'one_vs_rest', 'singletons', 'empties'])
    if profile == 'balanced':
        base = [n // k] * k
        for i in range(n - sum(base)):
            base[i] += 1
        return tuple(base)
    if profile == 'one_vs_rest' and n >= 1:
        sizes = [0] * k
        i = rng.randrange(k)
        j = rng.randrange(k)
        sizes[i] += 1
        sizes[j] += n - 1
        return tuple(sizes)
    if profile == 'singletons':
        k2 = min(k, n) if n > 0 else 1
        sizes = [1] * k2
        sizes[rng.randrange(k2)] += n - k2
        sizes += [0] * (k - k2)
        rng.shuffle(sizes)
        return tuple(sizes)
    if profile == 'empties':
        sizes = [0] * k
        live = rng.sample(range(k), max(1, k // 3))
        for _ in range(n):
            sizes[rng.choice(live)] += 1
        return tuple(sizes)
    cuts = sorted(rng.randint(0, n) for _ in range(k - 1))
    sizes = []
    prev = 0
    for c in cuts:
        sizes.append(c - prev)
        prev = c
    sizes.append(n - prev)
    return tuple(sizes)


def chunks_of(xs, sizes, arity=1):
    out = []
    i = 0
    for s in sizes:
        out.append(xs[i * arity:(i + s) * arity])
        i += s
    return out


class TreeCompiler:
    """Compile a merge history into driver ops.  Leaves are built with `N r; A r xs`
    (how='add') or `F r xs` etc.  After every merge the result register is observed
    (op 'O'), and the compiler records which multiset each observation stands for."""

    def __init__(self, case, chunks, arity=1, leaf_how='add', observe_nodes=True, observe_leaves=False):
        self.case = case
        self.chunks = chunks
        self.arity = arity
        self.free = list(range(31, -1, -1))
        self.obs = []   # (op index, (lo_chunk, hi_chunk), kind)
        self.leaf_how = leaf_how
        self.observe_nodes = observe_nodes
        self.observe_leaves = observe_leaves
        self.merges = []  # (left_count, right_count) item counts at each merge, in (self, other) order
        self.last_obs = {}   # register -> op index of its latest observation
        self.parents = {}    # op index of a node observation -> (obs op of the receiver before the merge, obs op of the argument)

    def build(self, tree):
        r, span, cnt = self._eval(tree)
        return r, span

    def _leaf(self, i):
        r = self.free.pop()
        xs = self.chunks[i]
        c = self.case
        how = self.leaf_how
        if how == 'add' or not xs:
            c.op('N', r)
            if xs:
                c.op('A', r, xs)
        elif how == 'collect':
            c.op('F', r, xs)
        elif how == 'collect_ref':
            c.op('FR', r, xs)
        elif how == 'extend':
            c.op('N', r)
            c.op('E', r, xs)
        elif how == 'extend_ref':
            c.op('N', r)
            c.op('ER', r, xs)
        self.last_obs.pop(r, None)
        if self.observe_leaves:
            k = c.op('O', r)
            self.obs.append((k, (i, i + 1), 'leaf'))
            self.last_obs[r] = k
        return r, (i, i + 1), len(xs) // self.arity

    def _eval(self, t):
        if isinstance(t, int):
            return self._leaf(t)
        l, r, o = t
        rl, sl, cl = self._eval(l)
        rr, sr, cr = self._eval(r)
        c = self.case
        if o == 0:
            c.op('M', rl, rr)
            self.merges.append((cl, cr))
            res, dead = rl, rr
        else:
            c.op('M', rr, rl)
            self.merges.append((cr, cl))
            res, dead = rr, rl
        self.free.append(dead)
        span = (sl[0], sr[1])
        before = (self.last_obs.get(res), self.last_obs.get(dead))
        self.last_obs.pop(res, None)
        if self.observe_nodes:
            k = c.op('O', res)
            self.obs.append((k, span, 'node'))
            self.last_obs[res] = k
            if before[0] is not None and before[1] is not None:
                self.parents[k] = before
        return res, span, cl + cr


def tree_signature(tree):
    if isinstance(tree, int):
        return 'L'
    return '(%s%s%d)' % (tree_signature(tree[0]), tree_signature(tree[1]), tree[2])
