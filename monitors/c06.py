"""C06 - a histogram counts each sample in the unique half-open bin that contains it."""
import itertools
import math
import random
import time

import common
from common import Case, Result, build, run_driver, val
import histmodel as hm

PROP = 'C06'
NAN = float('nan')
LATTICE = [-math.inf, -1.0, -0.0, 0.0, 0.5, 1.0, 2.0, math.inf]
RULE = ('LEN in {1,2,3,4}: EVERY non-decreasing edge vector over the lattice {-inf,-1,-0.0,+0.0,0.5,1,2,+inf} (both orders of '
        'the signed zeros, repeated edges, infinite ends) x samples {every edge, its two floating-point neighbours, midpoints, '
        '+-inf, NaN, -0.0, +0.0, +-1e300}; LEN in {7,10,15,16,31,33,64,100,127}: random edge vectors with long runs of repeated edges and infinite '
        'ends, and with_const_width grids. For each histogram: find(x) for every sample, then an add sequence with out-of-range '
        'samples interleaved. Model (10 lines): in range iff edge_0 <= x < edge_LEN (NaN never); bin = max{j: edge_j <= x}. '
        'Checked: find == model; add Ok/Err == model; no panic; bins == model counts (only the selected bin +1, failed adds change '
        'nothing); total == number of successful adds. Macro histograms on stable and histogram_const on nightly. '
        'distinct_nontrivial = distinct (type, edge vector, sample) pairs checked.')
ASSUME = ['driver faithfully prints find/add results', '10-line histogram model in monitors/histmodel.py',
          'behaviour with repeated edges depends on slice::binary_search_by tie handling of the toolchain in this sandbox (recorded in evidence)']


def nondecreasing_vectors(k):
    """All length-k vectors over LATTICE that are numerically non-decreasing."""
    out = []

    def rec(prefix):
        if len(prefix) == k:
            out.append(list(prefix))
            return
        for v in LATTICE:
            if not prefix or prefix[-1] <= v:
                rec(prefix + [v])
    rec([])
    return out


def samples_for(edges):
    s = []
    seen = set()

    def put(x):
        key = common.f2h(x)
        if key not in seen:
            seen.add(key)
            s.append(x)
    for e in edges:
        put(e)
        if e == e and abs(e) != math.inf:
            put(math.nextafter(e, math.inf))
            put(math.nextafter(e, -math.inf))
    fin = [e for e in edges if abs(e) != math.inf]
    for a, b in zip(fin, fin[1:]):
        put(0.5 * (a + b))
    for x in (math.inf, -math.inf, NAN, -0.0, 0.0, 1e300, -1e300, 5e-324, -5e-324):
        put(x)
    return s


def make_case(cid, typ, edges, samples, rng, const_width=None):
    c = Case(cid, typ, meta={'edges': [common.f2h(e) for e in edges]})
    if const_width is None:
        c.op('HR', 0, edges)
    else:
        c.op('HW', 0, list(const_width))
        c.op('O', 0)
    c.op('HF', 0, samples)
    seq = [rng.choice(samples) for _ in range(rng.randint(1, 24))]
    c.op('HA', 0, seq)
    c.op('O', 0)
    return c, seq


def judge(c, typ, edges, samples, seq, recs, res, variant, const_width):
    def viol(sig, msg):
        res.violation(PROP, '%s:%s' % ('Histogram' if not typ.startswith('C') else 'histogram_const', sig),
                      '%s with edges %r: %s' % (typ, edges, msg), c, variant)

    for r in recs:
        if r.kind in ('p', 'e', 'd'):
            viol('op-panic' if r.kind == 'p' else 'harness', 'op %d (%s) -> %s' % (r.op, c.ops[r.op][:50], r.rest))
            return
    if const_width is not None:
        # take the edges the implementation actually built (C12 checks their values)
        o0 = [r for r in recs if r.kind == 'o'][0]
        edges = [common.h2f(t) for t in o0.kv['ranges'].split(',')]
        res.count('const_width_edge_vectors')
        bad_i = [i for i in range(len(edges) - 1) if not (edges[i] <= edges[i + 1])]
        if bad_i:
            # "the unique bin containing x" presupposes non-decreasing edges: with edge i above edge i+1 a sample lies in two bins
            # (or in none), whatever find returns
            i = bad_i[0]
            viol('const-width-edges-not-sorted', 'with_const_width(%r, %r) built edge %d = %r above edge %d = %r: bins overlap, no '
                 'sample has a unique bin there' % (const_width[0], const_width[1], i, edges[i], i + 1, edges[i + 1]))
            return
    h = hm.Hist(edges)
    f = [r for r in recs if r.kind == 'f']
    a = [r for r in recs if r.kind == 'a']
    o = [r for r in recs if r.kind == 'o']
    if len(f) != 1 or len(a) != 1 or not o:
        viol('harness', 'missing records')
        return
    ftoks = f[0].rest.split()
    for x, t in zip(samples, ftoks):
        want = h.find(x)
        res.count('find_checks')
        res.count('evaluations')
        key = (typ, tuple(c.meta['edges']), common.f2h(x))
        res.distinct.add(hash(key))
        cls = 'nan' if x != x else ('in' if want is not None else 'out')
        res.count('find_%s' % cls)
        if want is not None and any(edges[i] == edges[i + 1] for i in range(len(edges) - 1)) and x in edges:
            res.count('find_on_repeated_edge_vector_at_edge')
        if t == '!':
            viol('find:panic:%s' % ('sample=NaN' if x != x else 'sample=number'), 'find(%r) panicked' % x)
        elif t == 'E':
            if want is not None:
                viol('find:rejects-in-range', 'find(%r) = Err but the sample lies in bin %d' % (x, want))
        else:
            if want is None:
                viol('find:accepts-out-of-range', 'find(%r) = Ok(%s) but the sample is out of range / NaN' % (x, t))
            elif int(t) != want:
                viol('find:wrong-bin', 'find(%r) = Ok(%s) but the half-open bin containing it is %d' % (x, t, want))
    atoks = a[0].rest.split()
    oks = 0
    for x, t in zip(seq, atoks):
        want = h.add(x)
        res.count('add_checks')
        res.count('evaluations')
        if t == '!':
            viol('add:panic:%s' % ('sample=NaN' if x != x else 'sample=number'), 'add(%r) panicked' % x)
        elif (t == '1') != want:
            viol('add:result', 'add(%r) returned %s but the model says %s' % (x, 'Ok' if t == '1' else 'Err', 'Ok' if want else 'Err'))
        if t == '1':
            oks += 1
    kv = o[-1].kv
    bins = [int(t[1:]) for t in kv['bins'].split(',')]
    res.count('histograms_checked')
    if bins != h.bins:
        viol('bins', 'after adds %r: bins() = %r, model %r' % (seq, bins, h.bins))
    if sum(bins) != oks:
        viol('total', 'sum of bins %d != number of successful adds %d' % (sum(bins), oks))
    for i in range(len(edges) - 1):
        if edges[i] == edges[i + 1] and bins[i] != 0:
            viol('empty-bin-received-sample', 'zero-width bin %d has count %d' % (i, bins[i]))


def shard(desc):
    rng = random.Random(desc['seed'])
    res = Result()
    variant = desc['variant']
    cases, plan = [], []
    cid = 0
    for typ, edges, cw in desc['work']:
        samples = samples_for(edges if cw is None else list(cw) + [cw[0] + (cw[1] - cw[0]) * k / 7.0 for k in range(8)])
        if cw is not None:
            L = int(typ.lstrip('CH'))
            step = (cw[1] - cw[0]) / float(L)
            for k in range(L + 1):
                x = cw[0] + (cw[1] - cw[0]) / L * k
                samples += [x, math.nextafter(x, math.inf), math.nextafter(x, -math.inf)]
                # start + step*k in the constructor's own operation order: lands exactly on the stored edge k
                e = cw[0] + step * float(k)
                samples += [e, math.nextafter(e, math.inf), math.nextafter(e, -math.inf)]
        c, seq = make_case('%s-%d' % (desc['name'], cid), typ, edges, samples, rng, cw)
        cid += 1
        cases.append(c)
        plan.append((c, typ, edges, samples, seq, cw))
    logs = run_driver(desc['binary'], ''.join(c.text() for c in cases))
    for c, typ, edges, samples, seq, cw in plan:
        recs = logs.get(c.id)
        if recs is None:
            res.inconclusive.append('case %s missing' % c.id)
            continue
        judge(c, typ, edges, samples, seq, recs, res, variant, cw)
        res.count('histograms_%s' % typ)
        if len(res.samples) < 2 and typ in ('H3', 'CH3') and cw is None and any(edges[i] == edges[i + 1] for i in range(3)):
            res.sample({'type': typ, 'edges': edges, 'program': [o[:200] for o in c.ops],
                        'find_results': [r.rest for r in recs if r.kind == 'f'][0][:200]})
    return res


def random_edges(rng, L):
    kind = rng.choice(['runs', 'runs', 'sorted', 'infends', 'allsame_but_one'])
    if kind == 'sorted':
        e = sorted(rng.uniform(-100, 100) for _ in range(L + 1))
    elif kind == 'runs':
        e = []
        v = rng.uniform(-50, 0)
        while len(e) < L + 1:
            run = rng.randint(1, max(1, L // 3))
            e += [v] * run
            v += rng.choice([0.0, rng.uniform(0, 5), 1e-300, math.ulp(v)])
        e = e[:L + 1]
    elif kind == 'infends':
        e = sorted(rng.uniform(-100, 100) for _ in range(L + 1))
        for i in range(rng.randint(1, max(1, L // 4))):
            e[i] = -math.inf
        for i in range(rng.randint(1, max(1, L // 4))):
            e[-1 - i] = math.inf
    else:
        v = rng.uniform(-5, 5)
        e = [v] * (L + 1)
        k = rng.randint(1, L)
        for i in range(k, L + 1):
            e[i] = v + 1.0
    return e


def run(tier, seed):
    t0 = time.time()
    total = Result()
    rng = random.Random(seed)
    if tier == 'quick':
        lens, nrand, variants = [1, 2, 3, 4, 7], 1500, [('release', 1.0), ('dev', 0.5), ('nightly', 0.5), ('plain', 0.3), ('bare', 0.3)]
    else:
        lens, nrand, variants = [1, 2, 3, 4, 7], 20000, [('release', 1.0), ('dev', 1.0), ('nightly', 1.0), ('plain', 0.3), ('bare', 0.3)]
    exhaustive = {L: nondecreasing_vectors(L + 1) for L in lens}
    try:
        for variant, frac in variants:
            binary = build(variant)
            prefix = 'CH' if variant == 'nightly' else 'H'
            work = []
            for L, vecs in exhaustive.items():
                for e in vecs:
                    work.append(('%s%d' % (prefix, L), e, None))
            for i in range(int(nrand * frac)):
                L = rng.choice([7, 10, 15, 16, 31, 33, 64, 100, 127])
                work.append(('%s%d' % (prefix, L), random_edges(rng, L), None))
            for i in range(int(nrand * frac / 3)):
                L = rng.choice([3, 10, 15, 31, 64, 100, 127])
                a = rng.choice([-1, 1]) * 10.0 ** rng.uniform(-10, 10) * rng.choice([0, 1, 1])
                b = a + 10.0 ** rng.uniform(-10, 10)
                if i % 3 == 0:
                    # bin widths in the subnormal range: the step has only a few significant bits, 1/step overflows
                    a = rng.choice([0.0, 0.0, 1e-308, -3e-310, 5e-324 * rng.randint(1, 1000)])
                    b = a + 5e-324 * rng.choice([L, 3 * L + 1, 35 * L, rng.randint(L, 2000 * L), int(4e-310 / 5e-324)])
                    res_subnormal = True
                if not (a < b):
                    continue
                work.append(('%s%d' % (prefix, L), [], (a, b)))
            # widths of k + 1/2 (+- a little) subnormal quanta per bin: the step (end - start)/LEN is rounded by up to half a
            # quantum, the largest relative error a step can have, and the error accumulates over the edges
            for L in [3, 4, 7, 10, 15, 31, 64, 100, 127]:
                for k_ in (1, 2, 3, 7, 20, 101):
                    for extra in ((L + 1) // 2, (L + 1) // 2 + 1, (L - 1) // 2, L - 1, 1):
                        for a in (0.0, 5e-324 * 77, -5e-324 * (L * k_ // 2)):
                            work.append(('%s%d' % (prefix, L), [], (a, a + 5e-324 * (L * k_ + extra))))
            rng.shuffle(work)
            nsh = common.NPROC
            descs = [{'name': '%s%d' % (variant[0], s), 'variant': variant, 'binary': binary, 'work': work[s::nsh],
                      'seed': seed * 1000003 + s * 7919 + sum(map(ord, variant))} for s in range(nsh)]
            total.merge(common.run_shards(shard, descs))
    except common.Inconclusive as e:
        total.inconclusive.append(str(e))
    need = {'const_width_edge_vectors': 500, 'find_in': 5000, 'find_out': 5000, 'find_nan': 500, 'add_checks': 5000,
            'find_on_repeated_edge_vector_at_edge': 500}
    return common.finish(PROP, tier, seed, total, RULE, t0, ASSUME, min_events=need, exhaustive=True,
                         extra={'builds': [v for v, _ in variants], 'exhaustive_LEN': lens,
                                'exhaustive_edge_vectors': {str(L): len(v) for L, v in exhaustive.items()},
                                'rustc_nightly': common.rustc_version('nightly')})


def rejudge(case, recs, res, variant, v):
    edges, cw, samples, seq = [], None, [], []
    for o in case.ops:
        t = o.split()
        if t[0] == 'HR':
            edges = [common.h2f(x) for x in t[2:]]
        elif t[0] == 'HW':
            cw = (common.h2f(t[2]), common.h2f(t[3]))
        elif t[0] == 'HF':
            samples = [common.h2f(x) for x in t[2:]]
        elif t[0] == 'HA':
            seq = [common.h2f(x) for x in t[2:]]
    judge(case, case.type, edges, samples, seq, recs, res, variant, cw)
