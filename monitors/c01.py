"""C01 - streaming mean and variance equal the exact statistics of the data."""
import random
import time
from fractions import Fraction

import common
from common import Case, Result, build, run_driver, val
import exact as ex
import gen
import momentcheck as mc
import seqcheck as sc

PROP = 'C01'
TYPES = ('Mean', 'Variance')
RULE = ('Sequences from 10 shape families x scale 1e-28..1e28 x common offset up to 1e12 spreads, each in '
        '>=3 orderings, fed one at a time to Mean and Variance (a fifth of the cases through the Estimate trait, as generic '
        'code would, the rest by method syntax); the estimator is observed after every add '
        '(n<=64) or at geometric checkpoints, and every accessor is compared with the exact rational '
        'statistics of the prefix within the DESIGN.md section-2 envelope. distinct_nontrivial = distinct '
        '(type, program) cases with at least one checked state having n>=2, sigma>0, inside the '
        'representability guard and envelope C*n*kappa*u <= 1e-3.')
ASSUME = ['CPython int/Fraction arithmetic is exact', 'driver faithfully prints accessor bit patterns',
          'envelope constants of DESIGN.md section 2 (calibrated, fixed)']


def shard(desc):
    rng = random.Random(desc['seed'])
    res = Result()
    binary = desc['binary']
    variant = desc['variant']
    cases = []
    plan = []
    cid = 0
    for i in range(desc['nseq']):
        if desc.get('long') and i < desc['long']:
            n = rng.choice(desc['long_lens'])
            xs, meta = gen.sequence(rng, n=n, need_spread=True, max_offset_exp=6)
            orders = ('asgen',)
        else:
            xs, meta = gen.sequence(rng, n=gen.pick_len(rng, long_prob=desc.get('long_prob', 0.01)))
            orders = ('asgen',) + tuple(rng.sample(['asc', 'desc', 'abs', 'absdesc', 'shuffled'], 2))
        for oname, ys in gen.order_variants(rng, xs, orders):
            oracle = sc.PrefixOracle(ys, 2)
            for typ in TYPES:
                t = typ
                if typ == 'Variance' and rng.random() < 0.2:
                    t = 'MeanWithError'
                m = dict(meta)
                m['order'] = oname
                c, marks = sc.prefix_case('%s-%d' % (desc['name'], cid), t, ys, meta=m, via_trait=rng.random() < 0.2,
                                          noise=(rng if rng.random() < 0.15 else None), serde_ok=common.has_serde(variant))
                if c.meta.get('noise'):
                    res.count('cases_with_invisible_ops')
                if c.meta.get('add'):
                    res.count('cases_added_through_trait')
                cid += 1
                cases.append(c)
                plan.append((c, marks, oracle, 'Variance' if t == 'MeanWithError' else t))
    logs = run_driver(binary, ''.join(c.text() for c in cases))
    for c, marks, oracle, typ in plan:
        recs = logs.get(c.id)
        if recs is None:
            res.inconclusive.append('case %s missing from driver log' % c.id)
            continue
        nt = sc.judge_prefix_case(PROP, typ, c, marks, recs, oracle, res, variant)
        res.count('cases')
        if nt:
            res.distinct.add(c.key())
        if len(res.samples) < 2 and nt and len(oracle.xs) <= 6:
            o = [r for r in recs if r.kind == 'o'][-1]
            res.sample({'type': c.type, 'program': c.ops, 'meta': c.meta,
                        'last_observation': {k: common.show(v) for k, v in o.kv.items()},
                        'exact_mean': ex.approx(oracle.at(len(oracle.xs)).mean),
                        'exact_population_variance': ex.approx(oracle.at(len(oracle.xs)).m[2])})
    return res


def ladder(binary):
    """Deterministic conditioning ladder: the same shapes at offsets 10^0 .. 10^12 spreads.
    Reports relative variance error against kappa (observed slope: linear, not quadratic)."""
    rows = []
    res = Result()
    shapes = {'4pt': [4.0, 7.0, 13.0, 16.0], '10pt': [float(i * i % 7) for i in range(10)],
              '100pt': [((i * 37) % 101) / 10.0 for i in range(100)]}
    cases, plan = [], []
    for name, base in shapes.items():
        for e in range(0, 13):
            xs = [b + 10.0 ** e for b in base]
            c, marks = sc.prefix_case('lad-%s-%d' % (name, e), 'Variance', xs, meta={'ladder': name, 'offset_exp': e})
            cases.append(c)
            plan.append((c, marks, sc.PrefixOracle(xs, 2), name, e))
    logs = run_driver(binary, ''.join(c.text() for c in cases))
    for c, marks, oracle, name, e in plan:
        recs = logs[c.id]
        sc.judge_prefix_case(PROP, 'Variance', c, marks, recs, oracle, res)
        mo = oracle.at(len(oracle.xs))
        o = [r for r in recs if r.kind == 'o'][-1]
        pv = val(o.kv['population_variance'])
        rel = abs(Fraction(pv) - mo.m[2]) / mo.m[2]
        rows.append({'shape': name, 'offset_exp': e, 'kappa': float('%.3g' % ex.approx(mo.kappa)),
                     'rel_err_variance_over_u': float('%.3g' % ex.approx(rel / ex.U)),
                     'rel_err_over_n_kappa_u': float('%.3g' % ex.approx(rel / (ex.U * mo.kappa * mo.n)))})
        res.count('ladder_points')
    return res, rows


def run(tier, seed):
    t0 = time.time()
    plan = [('release', 1.0)]
    if tier == 'quick':
        nseq, variants = 2400, [('release', 1.0), ('dev', 0.25), ('std', 0.15), ('native', 0.1), ('bare', 0.1)]
    else:
        nseq, variants = 120000, [('release', 1.0), ('dev', 0.15), ('std', 0.15), ('nightly', 0.05), ('native', 0.05), ('bare', 0.05)]
    total = Result()
    extra = {}
    try:
        for variant, frac in variants:
            binary = build(variant)
            n = int(nseq * frac)
            nsh = common.NPROC * (1 if tier == 'quick' else 8)
            descs = []
            for s in range(nsh):
                d = {'name': '%s%d' % (variant[0], s), 'seed': seed * 1000003 + s * 7919 + hash(variant) % 1000,
                     'nseq': max(1, n // nsh), 'binary': binary, 'variant': variant}
                if tier == 'thorough' and variant == 'release' and s < 4:
                    d['long'] = 1
                    d['long_lens'] = [100000, 1000000] if s == 0 else [100000]
                descs.append(d)
            for d in descs:
                d['seed'] = seed * 1000003 + sum(map(ord, d['name'])) * 7919 + len(d['name'])
            total.merge(common.run_shards(shard, descs))
            total.count('variant_%s_runs' % variant)
        # sample sizes beyond 2^32 (self-merging in both tiers; thorough: also genuinely add-only runs of 2^32+ adds)
        import bigcount
        for variant in ('release', 'dev'):
            binary = build(variant)
            bc = [(t, ka, kb) for t in ('Mean', 'Variance') for ka, kb in [(16, 16), (31, 31), (32, 32), (33, 0), (33, 33), (40, 20), (53, 0), (62, 62)]]
            descs = [{'name': 'b%s%d' % (variant[0], s), 'variant': variant, 'binary': binary, 'work': bc[s::8], 'prop': PROP,
                      'ar_work': ([(('Mean', 'Variance')[s % 2], 2 ** 32 + 1000 + s)] if (tier == 'thorough' and variant == 'release' and s < 4) else []),
                      'seed': seed * 7 + s} for s in range(8)]
            total.merge(common.run_shards(bigcount.shard, descs))
        lres, rows = ladder(build('release'))
        total.merge(lres)
        extra['conditioning_ladder'] = rows
        extra['builds'] = [v for v, _ in variants]
    except common.Inconclusive as e:
        total.inconclusive.append(str(e))
    return common.finish(PROP, tier, seed, total, RULE, t0, ASSUME,
                         min_events={'cases_added_through_trait': 100, 'nontrivial_states': 1000, 'ladder_points': 39, 'bigcount_states_above_2^32': 20}, extra=extra)
