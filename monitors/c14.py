"""C14 - Min and Max return the exact extreme of everything seen, in any order."""
import itertools
import math
import random
import time

import common
from common import Case, Result, build, run_driver, val, PANIC
import gen

PROP = 'C14'
NAN = float('nan')
NEG_NAN = common.frombits(0xFFF8000000000000)      # a NaN with the sign bit set (what 0.0/0.0 produces on x86-64)
ALPHA = [-math.inf, -1.5, -0.0, 0.0, 2.0, math.inf, NAN, NEG_NAN]
RULE = ('Every sequence of length <= L over {-inf, -1.5, -0.0, +0.0, 2.0, +inf, NaN, -NaN (sign bit set)} (which contains every permutation of '
        'every multiset) fed to Min and Max by add (observed after every add), collect by value / by reference, extend '
        '(Min only: Max has no Extend impl), from_value(first)+add(rest), and through EVERY merge history with k<=3 chunks '
        '(all compositions incl. empty chunks x all trees x both orientations) for length <= Lh (sampled beyond); plus random '
        'long sequences over section-3.1 values with NaN / inf sprinkled in, through random merge trees. Model: numeric min / '
        'max of the non-NaN values absorbed (+inf / -inf if none), compared with == (so -0.0 and +0.0 are interchangeable). '
        'Position sweep: a stream of 4200 (thorough 20000) identical values with the unique extreme at EVERY position, ingested by one '
        'collect / extend call over a generated iterator and over a slice. distinct_nontrivial = distinct (type, program) cases that absorbed >= 2 values.')
ASSUME = ['driver faithfully prints accessor bit patterns', 'model: 2-line numeric min/max ignoring NaN']


def model(typ, xs):
    v = [x for x in xs if x == x]
    if typ == 'Min':
        return min(v) if v else math.inf
    return max(v) if v else -math.inf


def check(typ, kv, xs, res, c, variant, how):
    res.count('evaluations')
    acc = 'min' if typ == 'Min' else 'max'
    want = model(typ, xs)
    for name in (acc, 'estimate'):
        got = val(kv[name])
        res.count('comparisons')
        if got is PANIC or not (got == want):
            res.violation(PROP, '%s.%s:%s' % (typ, name, how),
                          '%s.%s() = %s after %s of %r; expected %r' % (typ, name, common.show(kv[name]), how, xs, want), c, variant)
            return False
    if any(x != x for x in xs):
        res.count('states_with_nan')
    return True


def sweep_shard(desc):
    """Position sweep: a long stream of identical values with the unique extreme at position pos, for EVERY pos in the
    shard's slice, ingested by ONE collect / extend call over a generated (non-slice) iterator and over a slice iterator.
    Whichever position a blocked / unrolled ingestion loop might drop, the extreme sits there in some case."""
    res = Result()
    variant = desc['variant']
    n = desc['n']
    cases = []
    allmarks = {}
    for typ in ('Min', 'Max'):
        ext = -5.0 if typ == 'Min' else 5.0
        c = None
        for j, pos in enumerate(desc['positions']):
            if j % 200 == 0:
                c = Case('%s-%s-%d' % (desc['name'], typ, j), typ, meta={'n': n})
                allmarks[c.id] = []
                cases.append(c)
            for code in (('FG', 'FGR', 'EG', 'EGR') if typ == 'Min' else ('FG', 'FGR')):
                if code.startswith('E'):
                    c.op('N', 0)
                c.op(code, 0, n, pos, 1.0, ext)
                allmarks[c.id].append((c.op('O', 0), pos, code))
    logs = run_driver(desc['binary'], ''.join(c.text() for c in cases))
    for c in cases:
        recs = logs.get(c.id, [])
        for r in recs:
            if r.kind in ('p', 'e', 'd'):
                res.violation(PROP, '%s:%s' % (c.type, 'panic' if r.kind == 'p' else 'harness'), '%s: op %d -> %s' % (c.type, r.op, r.rest), c, variant)
        by_op = {r.op: r for r in recs if r.kind == 'o'}
        ext = -5.0 if c.type == 'Min' else 5.0
        for opi, pos, code in allmarks[c.id]:
            r = by_op.get(opi)
            if r is None:
                continue
            res.count('evaluations')
            res.count('position_sweep_checks')
            got = val(r.kv['min' if c.type == 'Min' else 'max'])
            if not (got == ext):
                how = {'FG': 'collect (generated iterator)', 'FGR': 'collect by reference', 'EG': 'extend (generated iterator)', 'EGR': 'extend by reference'}[code]
                res.violation(PROP, '%s.%s:%s:lost-observation' % (c.type, 'min' if c.type == 'Min' else 'max', code),
                              '%s %s of %d observations lost the extreme %r sitting at position %d (result %r)' % (c.type, how, n, ext, pos, got), c, variant)
        res.distinct.add(c.key())
    return res


def all_histories(n, kmax):
    out = []
    for k in range(2, kmax + 1):
        for sizes in gen.compositions(n, k):
            for shape in gen.tree_shapes(0, k):
                for tree in gen.orientations(shape):
                    out.append((sizes, tree))
    return out


def shard(desc):
    rng = random.Random(desc['seed'])
    res = Result()
    variant = desc['variant']
    cases, plan = [], []
    cid = 0

    def nid():
        nonlocal cid
        cid += 1
        return '%s-%d' % (desc['name'], cid)

    hist_cache = {}
    for typ, seq, do_hist in desc['work']:
        xs = list(seq)
        n = len(xs)
        # add one at a time
        c = Case(nid(), typ)
        c.op('N', 0)
        marks = []
        for i, x in enumerate(xs):
            c.op('A', 0, [x])
            marks.append((c.op('O', 0), xs[:i + 1], 'add'))
        # collect / extend / from_value
        c.op('F', 1, xs)
        marks.append((c.op('O', 1), xs, 'collect'))
        c.op('FR', 2, xs)
        marks.append((c.op('O', 2), xs, 'collect_ref'))
        if typ == 'Min':
            c.op('N', 3)
            c.op('E', 3, xs[:n // 2])
            c.op('E', 3, xs[n // 2:])
            marks.append((c.op('O', 3), xs, 'extend'))
            c.op('N', 4)
            c.op('ER', 4, xs)
            marks.append((c.op('O', 4), xs, 'extend_ref'))
        if n >= 1 and xs[0] == xs[0]:
            c.op('V', 5, xs[0])
            marks.append((c.op('O', 5), xs[:1], 'from_value'))
            if n > 1:
                c.op('A', 5, xs[1:])
            marks.append((c.op('O', 5), xs, 'from_value+add'))
        if common.has_rayon(variant) and n >= 1 and (n <= 3 or sum(common.bits(x_) for x_ in xs) % 4 == 0):
            # collect from a parallel iterator (rayon): a reduction that has no identity element, or a finite one, shows here
            c.op('P', 8, 2, 1, 1, 'v', 0, 0, xs)
            marks.append((c.op('O', 8), xs, 'par_collect'))
            c.op('P', 9, 3, 0, 0, 'r', 0, 0, xs)
            marks.append((c.op('O', 9), xs, 'par_collect_ref'))
            res.count('parallel_collects', 2)
        c.op('N', 6)
        marks.append((c.op('O', 6), [], 'new'))
        c.op('D', 7)
        marks.append((c.op('O', 7), [], 'default'))
        cases.append(c)
        plan.append((c, marks, typ, n))
        if do_hist and n >= 1:
            hs = hist_cache.get(n)
            if hs is None:
                hs = all_histories(n, desc['kmax'])
                hist_cache[n] = hs
            use = hs if do_hist == 'all' else rng.sample(hs, min(len(hs), do_hist))
            for sizes, tree in use:
                chunks = gen.chunks_of(xs, sizes)
                c = Case(nid(), typ, meta={'sizes': list(sizes), 'tree': gen.tree_signature(tree)})
                tc = gen.TreeCompiler(c, chunks)
                tc.build(tree)
                offs = [0]
                for s in sizes:
                    offs.append(offs[-1] + s)
                marks = [(opi, xs[offs[a]:offs[b]], 'merge') for opi, (a, b), _ in tc.obs]
                cases.append(c)
                plan.append((c, marks, typ, n))
                res.count('merge_histories')
                for a, b in tc.merges:
                    if a == 0:
                        res.count('merge_into_empty')
                    if b == 0:
                        res.count('merge_of_empty')
    # random long sequences through random trees
    for i in range(desc.get('nrandom', 0)):
        typ = rng.choice(['Min', 'Max'])
        n = rng.randint(2, 300)
        xs, _ = gen.sequence(rng, n=n)
        for j in range(n):
            r = rng.random()
            if r < 0.05:
                xs[j] = NAN
            elif r < 0.07:
                xs[j] = rng.choice([math.inf, -math.inf])
            elif r < 0.09:
                xs[j] = rng.choice([0.0, -0.0])
        k = rng.randint(1, 10)
        sizes = gen.random_composition(rng, n, k)
        tree = gen.random_tree(rng, 0, k)
        c = Case(nid(), typ, meta={'sizes': list(sizes), 'tree': gen.tree_signature(tree)})
        tc = gen.TreeCompiler(c, gen.chunks_of(xs, sizes), leaf_how=rng.choice(['add', 'collect', 'collect_ref']))
        if k == 1:
            r0, span, _ = tc._leaf(0)
            tc.obs.append((c.op('O', r0), span, 'node'))
        else:
            tc.build(tree)
        offs = [0]
        for s in sizes:
            offs.append(offs[-1] + s)
        marks = [(opi, xs[offs[a]:offs[b]], 'merge') for opi, (a, b), _ in tc.obs]
        cases.append(c)
        plan.append((c, marks, typ, n))
        res.count('random_long_cases')
    logs = run_driver(desc['binary'], ''.join(c.text() for c in cases))
    for c, marks, typ, n in plan:
        recs = logs.get(c.id)
        if recs is None:
            res.inconclusive.append('case %s missing' % c.id)
            continue
        for r in recs:
            if r.kind in ('p', 'e', 'd'):
                res.violation(PROP, '%s:%s' % (typ, 'panic' if r.kind == 'p' else 'harness'),
                              '%s: op %d (%s) -> %s %s' % (typ, r.op, c.ops[r.op][:60], r.kind, r.rest), c, variant)
        by_op = {r.op: r for r in recs if r.kind == 'o'}
        for opi, xs, how in marks:
            r = by_op.get(opi)
            if r is None:
                res.violation(PROP, '%s:missing-observation' % typ, 'no observation for op %d' % opi, c, variant)
                continue
            check(typ, r.kv, xs, res, c, variant, how)
        res.count('cases')
        if n >= 2:
            res.distinct.add(c.key())
        if len(res.samples) < 2 and 'tree' in c.meta and n == 3:
            res.sample({'type': typ, 'program': c.ops, 'meta': c.meta})
    return res


def run(tier, seed):
    t0 = time.time()
    total = Result()
    rng = random.Random(seed)
    if tier == 'quick':
        L, Lh, kmax, nrandom, variants = 5, 3, 3, 4000, [('release', 1.0), ('dev', 0.25), ('plain', 0.2), ('bare', 0.2)]
    else:
        L, Lh, kmax, nrandom, variants = 6, 4, 3, 100000, [('release', 1.0), ('dev', 0.25), ('nightly', 0.25), ('plain', 0.1), ('bare', 0.1)]
    work = []
    for n in range(0, L + 1):
        for seq in itertools.product(ALPHA, repeat=n):
            for typ in ('Min', 'Max'):
                if n <= Lh:
                    dh = 'all'
                else:
                    dh = 2 if tier == 'quick' else 6
                work.append((typ, seq, dh))
    try:
        for variant, frac in variants:
            binary = build(variant)
            w = work if frac >= 1.0 else [x for x in work if len(x[1]) <= L - 1]
            nsh = common.NPROC * (4 if tier == 'thorough' else 1)
            rng2 = random.Random(seed + 1)
            w = list(w)
            rng2.shuffle(w)
            descs = [{'name': '%s%d' % (variant[0], s), 'variant': variant, 'binary': binary, 'work': w[s::nsh],
                      'kmax': kmax, 'nrandom': int(nrandom * frac) // nsh,
                      'seed': seed * 1000003 + s * 7919 + sum(map(ord, variant))} for s in range(nsh)]
            total.merge(common.run_shards(shard, descs))
            nsweep = 4200 if tier == 'quick' else 20000
            pos = list(range(nsweep)) if frac >= 1.0 else list(range(0, nsweep, 3))
            sdescs = [{'name': 'w%s%d' % (variant[0], s), 'variant': variant, 'binary': binary, 'n': nsweep, 'positions': pos[s::nsh]}
                      for s in range(nsh)]
            total.merge(common.run_shards(sweep_shard, sdescs))
    except common.Inconclusive as e:
        total.inconclusive.append(str(e))
    need = {'position_sweep_checks': 10000, 'merge_histories': 5000, 'merge_into_empty': 1000, 'merge_of_empty': 1000, 'states_with_nan': 1000,
            'random_long_cases': 500}
    return common.finish(PROP, tier, seed, total, RULE, t0, ASSUME, min_events=need, exhaustive=True,
                         extra={'builds': [v for v, _ in variants], 'exhaustive_sequence_length': L,
                                'exhaustive_history_length': Lh, 'kmax': kmax, 'alphabet': [repr(a) for a in ALPHA]})
