"""C13 - histogram merge, +=, *=, reset and views are exact bin-wise operations."""
import math
import random
import time

import common
from common import Case, Result, build, run_driver
import histmodel as hm

PROP = 'C13'
RULE = ('Random histories of add / merge / += / *= k (k<=5) / reset / clone over 3 histogram registers that carry 1-2 distinct '
        'edge vectors (so that edge mismatches occur), LEN in {1,2,3,4,7,10,100}, edge vectors with infinite ends, zero-width bins '
        'and +-0; all 3 registers are observed after every operation and compared with an executable model: bins as integers; '
        'merge / += = element-wise sum iff edges are numerically equal, otherwise the operation must panic and BOTH operands must '
        'be observed unchanged; *=, reset; iteration yields exactly LEN ((lower, upper), count) items in order; widths, centers, '
        'normalized_bins predicted bit-for-bit as single IEEE operations (inf, NaN for 0/0 and inf-inf included); variance(i) and '
        'variances() against exact c(1-c/N) within 4u*max(c,N/4) and each other within 2 ulp, NaN for an empty histogram. '
        'Commutativity / associativity / merge == += follow from equality with the model. Counts stay below 2^61 (no u64 overflow) but are driven beyond 2^53 by *= with large factors. '
        'distinct_nontrivial = distinct (type, program) histories with >= 1 successful merge or +=.')
ASSUME = ['driver faithfully prints histogram views', 'model: monitors/histmodel.py', 'python float arithmetic is IEEE-754 binary64 (for the views)']


def edge_vector(rng, L):
    kind = rng.choice(['plain', 'plain', 'inf', 'empty_bins', 'zeros', 'wide'])
    if kind == 'plain':
        e = sorted(rng.uniform(-10, 10) for _ in range(L + 1))
    elif kind == 'inf':
        e = sorted(rng.uniform(-10, 10) for _ in range(L + 1))
        e[0] = -math.inf
        if rng.random() < 0.7:
            e[-1] = math.inf
        if L >= 3 and rng.random() < 0.3:
            e[1] = -math.inf
    elif kind == 'empty_bins':
        vals = sorted(rng.uniform(-5, 5) for _ in range(max(2, (L + 1) // 2)))
        e = sorted(rng.choice(vals) for _ in range(L + 1))
        if e[0] == e[-1]:
            e[-1] = e[0] + 1.0
    elif kind == 'zeros':
        e = sorted(rng.choice([-1.0, -0.0, 0.0, 0.0, 1.0, 2.0]) for _ in range(L + 1))
        if e[0] == e[-1]:
            e[-1] = e[0] + 1.0
        # randomise the sign of zeros
        e = [rng.choice([0.0, -0.0]) if v == 0.0 else v for v in e]
    else:
        e = sorted(rng.choice([-1, 1]) * 10.0 ** rng.uniform(-300, 300) for _ in range(L + 1))
    return e


def sample_for(rng, e):
    r = rng.random()
    fin = [v for v in e if abs(v) != math.inf]
    if r < 0.6 and fin:
        lo, hi = min(fin), max(fin)
        return rng.uniform(lo - (hi - lo) * 0.1 - 1e-3, hi + (hi - lo) * 0.1 + 1e-3)
    if r < 0.8:
        return rng.choice(e)
    if r < 0.9:
        return rng.choice([-1e308, 1e308, 0.0, -0.0])
    return rng.choice([math.inf, -math.inf, float('nan')])


def shard(desc):
    rng = random.Random(desc['seed'])
    res = Result()
    variant = desc['variant']
    cases, plan = [], []
    for i in range(desc['nhist']):
        L = rng.choice(desc['lens'])
        typ = '%s%d' % (desc['prefix'], L)
        e1 = edge_vector(rng, L)
        r = rng.random()
        if r < 0.4:
            e2 = e1
        elif r < 0.55:
            # numerically equal but different zero signs / same values
            e2 = [(-v if v == 0.0 else v) for v in e1]
        elif r < 0.8:
            e2 = list(e1)
            k = rng.randrange(L + 1)
            cand = math.nextafter(e2[k], math.inf) if abs(e2[k]) != math.inf else (1e300 if e2[k] > 0 else -1e300)
            e2[k] = cand
            if any(e2[j] > e2[j + 1] for j in range(L)):
                e2 = sorted(e2)
        else:
            e2 = edge_vector(rng, L)
        c = Case('%s-%d' % (desc['name'], i), typ)
        regs_e = [e1, rng.choice([e1, e2]), e2]
        model = []
        for r_, e in enumerate(regs_e):
            c.op('HR', r_, e)
            model.append(hm.Hist(e))
        steps = []   # (op index of first O, expected panic op index or None, snapshot of model)
        nops = rng.randint(1, desc['maxops'])
        merges_ok = 0
        for _ in range(nops):
            x = rng.random()
            exp_panic = None
            if x < 0.45:
                r_ = rng.randrange(3)
                xs = [sample_for(rng, model[r_].edges) for _ in range(rng.randint(1, 6))]
                c.op('HA', r_, xs)
                for v in xs:
                    model[r_].add(v)
            elif x < 0.7:
                a, b = rng.randrange(3), rng.randrange(3)
                code = rng.choice(['M', 'H+'])
                if sum(model[a].bins) + sum(model[b].bins) >= 2 ** 61:
                    continue        # stay clear of u64 overflow
                k = c.op(code, a, b)
                if a == b:
                    other = model[b].clone()
                    ok = model[a].merge(other)
                else:
                    ok = model[a].merge(model[b])
                if not ok:
                    exp_panic = k
                    res.count('mismatch_merges')
                else:
                    merges_ok += 1
                    res.count('ok_merges_%s' % ('merge' if code == 'M' else 'add_assign'))
            elif x < 0.82:
                r_ = rng.randrange(3)
                kk = rng.randint(0, 5)
                if rng.random() < 0.15:
                    # drive the counts beyond 2^53, where a count is no longer exact as an f64 (still far from u64 overflow)
                    kk = rng.choice([2 ** 30, 2 ** 45, 2 ** 53 + 1, 3 ** 33])
                if sum(model[r_].bins) * max(kk, 1) < 2 ** 60 and all(sum(m.bins) < 2 ** 60 for m in model):
                    c.op('H*', r_, kk)
                    model[r_].mul(kk)
                    res.count('mul_ops')
                    if sum(model[r_].bins) > 2 ** 53:
                        res.count('histograms_beyond_2^53')
            elif x < 0.9:
                r_ = rng.randrange(3)
                c.op('HZ', r_)
                model[r_].reset()
                res.count('reset_ops')
            else:
                a, b = rng.sample(range(3), 2)
                c.op(rng.choice(['K', 'KF']), a, b)      # clone() or clone_from()
                model[a] = model[b].clone()
            obs = [c.op('O', r_) for r_ in range(3)]
            steps.append((obs, exp_panic, [m.clone() for m in model]))
        cases.append(c)
        plan.append((c, typ, steps, merges_ok))
    logs = run_driver(desc['binary'], ''.join(c.text() for c in cases))
    for c, typ, steps, merges_ok in plan:
        fam = 'histogram_const' if typ.startswith('C') else 'Histogram'
        recs = logs.get(c.id)
        if recs is None:
            res.inconclusive.append('case %s missing' % c.id)
            continue
        by_op = {}
        for r in recs:
            by_op.setdefault(r.op, []).append(r)
        expected_panics = {s[1] for s in steps if s[1] is not None}
        for r in recs:
            if r.kind == 'p' and r.op not in expected_panics:
                res.violation(PROP, '%s:unexpected-panic' % fam, '%s: op %d (%s) panicked: %s' % (typ, r.op, c.ops[r.op][:60], r.rest), c, variant)
            elif r.kind in ('e', 'd'):
                res.violation(PROP, '%s:harness' % fam, '%s: op %d -> %s' % (typ, r.op, r.rest), c, variant)
        for obs, exp_panic, snap in steps:
            if exp_panic is not None:
                res.count('panic_expectations')
                if not any(r.kind == 'p' for r in by_op.get(exp_panic, [])):
                    res.violation(PROP, '%s:no-panic-on-edge-mismatch' % fam,
                                  '%s: op %d (%s) merged histograms with different edges without panicking' % (typ, exp_panic, c.ops[exp_panic]), c, variant)
            for opi, m in zip(obs, snap):
                o = [r for r in by_op.get(opi, []) if r.kind == 'o']
                if not o:
                    res.violation(PROP, '%s:harness' % fam, 'missing observation op %d' % opi, c, variant)
                    continue
                v = []
                hm.compare_obs(o[0].kv, m, v)
                res.count('evaluations')
                if exp_panic is not None:
                    res.count('observations_after_expected_panic')
                for sig, msg in v[:2]:
                    res.violation(PROP, '%s:%s%s' % (fam, sig, ':after-mismatch-panic' if exp_panic is not None else ''),
                                  '%s after op "%s": %s' % (typ, c.ops[opi - 1 - (opi - obs[0])][:60] if opi - (opi - obs[0]) - 1 >= 0 else '', msg), c, variant)
        res.count('histories')
        res.count('histories_%s' % typ)
        if merges_ok:
            res.distinct.add(c.key())
        if len(res.samples) < 2 and typ.endswith('3') and len(c.ops) < 30 and merges_ok:
            res.sample({'type': typ, 'program': [o[:120] for o in c.ops],
                        'last_observation': {k: v[:120] for k, v in [r for r in recs if r.kind == 'o'][-1].kv.items()}})
    if plan:
        res.ensure_sample(plan[0][0])
    return res


def run(tier, seed):
    t0 = time.time()
    total = Result()
    if tier == 'quick':
        nhist, maxops, variants, mult = 4000, 12, [('release', 1.0), ('dev', 0.4), ('nightly', 0.4), ('plain', 0.3), ('bare', 0.2)], 1
    else:
        nhist, maxops, variants, mult = 200000, 25, [('release', 1.0), ('dev', 0.3), ('nightly', 0.3), ('plain', 0.2), ('bare', 0.1)], 8
    try:
        for variant, frac in variants:
            binary = build(variant)
            nsh = common.NPROC * mult
            descs = [{'name': '%s%d' % (variant[0], s), 'variant': variant, 'binary': binary,
                      'prefix': 'CH' if variant == 'nightly' else 'H', 'lens': [1, 2, 3, 4, 7, 10, 100],
                      'nhist': max(1, int(nhist * frac) // nsh), 'maxops': maxops,
                      'seed': seed * 1000003 + s * 7919 + sum(map(ord, variant))} for s in range(nsh)]
            total.merge(common.run_shards(shard, descs))
    except common.Inconclusive as e:
        total.inconclusive.append(str(e))
    need = {'histograms_beyond_2^53': 20, 'mismatch_merges': 500, 'ok_merges_merge': 500, 'ok_merges_add_assign': 500, 'mul_ops': 500, 'reset_ops': 300,
            'observations_after_expected_panic': 1000}
    for L in (1, 2, 3, 4, 7, 10, 100):
        need['histories_H%d' % L] = 20
        need['histories_CH%d' % L] = 10
    return common.finish(PROP, tier, seed, total, RULE, t0, ASSUME, min_events=need,
                         extra={'builds': [v for v, _ in variants]})


def rejudge(case, recs, res, variant, v):
    typ = case.type
    fam = 'histogram_const' if typ.startswith('C') else 'Histogram'
    L = int(typ.lstrip('CH'))
    model = {}
    by_op = {}
    for r in recs:
        by_op.setdefault(r.op, []).append(r)
    for i, o in enumerate(case.ops):
        t = o.split()
        code = t[0]
        vals = lambda toks: [common.h2f(x) for x in toks]
        if code == 'HR':
            r = hm.from_ranges(vals(t[2:]), L)
            if r[0] == 'ok':
                model[t[1]] = r[1]
        elif code == 'HA':
            for x in vals(t[2:]):
                model[t[1]].add(x)
        elif code in ('M', 'H+'):
            other = model[t[2]].clone()
            ok = model[t[1]].merge(other)
            panicked = any(r.kind == 'p' for r in by_op.get(i, []))
            if ok and panicked:
                res.violation(PROP, '%s:unexpected-panic' % fam, 'op %d (%s) panicked' % (i, o), case, variant)
            if not ok and not panicked:
                res.violation(PROP, '%s:no-panic-on-edge-mismatch' % fam, 'op %d (%s) did not panic' % (i, o), case, variant)
        elif code == 'H*':
            model[t[1]].mul(int(t[2]))
        elif code == 'HZ':
            model[t[1]].reset()
        elif code in ('K', 'KF'):
            model[t[1]] = model[t[2]].clone()
        elif code == 'O':
            oo = [r for r in by_op.get(i, []) if r.kind == 'o']
            if oo:
                vv = []
                hm.compare_obs(oo[0].kv, model[t[1]], vv)
                res.count('evaluations')
                for sig, msg in vv[:2]:
                    res.violation(PROP, '%s:%s' % (fam, sig), msg, case, variant)
