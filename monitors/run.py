"""Entry point: python3 monitors/run.py <Cxx> [--tier quick|thorough] [--replay FILE]"""
import argparse
import importlib
import json
import os
import sys

sys.path.insert(0, os.path.dirname(os.path.abspath(__file__)))
import common  # noqa: E402


def main():
    ap = argparse.ArgumentParser()
    ap.add_argument('prop')
    ap.add_argument('--tier', default=os.environ.get('VERIF_TIER', 'quick'))
    ap.add_argument('--replay')
    a = ap.parse_args()
    prop = a.prop.upper()
    tier = a.tier if a.tier in ('quick', 'thorough') else 'quick'
    try:
        seed = int(os.environ.get('VERIF_SEED', '1'))
    except ValueError:
        seed = 1
    mod = importlib.import_module(prop.lower())
    if a.replay:
        import replay
        sys.exit(replay.replay(mod, a.replay))
    code = mod.run(tier, seed)
    sys.exit(code)


if __name__ == '__main__':
    main()
