#!/usr/bin/env python3
"""Print the markdown table 'which checks catch which seeded change' from seeded/*/lab_result.json, and update each
seeded/<id>/meta.json (checks_run / caught_by)."""
import glob
import json
import os
import re

VERIF = os.path.dirname(os.path.dirname(os.path.abspath(__file__)))
rows = []
for d in sorted(glob.glob(os.path.join(VERIF, 'seeded', '*'))):
    sid = os.path.basename(d)
    rp = os.path.join(d, 'lab_result.json')
    if not os.path.exists(rp):
        continue
    res = json.load(open(rp))
    caught = [c for c, v in sorted(res.items()) if v['rc'] == 1]
    inconc = [c for c, v in sorted(res.items()) if v['rc'] not in (0, 1)]
    meta = json.load(open(os.path.join(d, 'meta.json')))
    meta['checks_run'] = 'tools/seedlab.py (patch applied to a scratch worktree of /repo, quick tier, VERIF_SEED=1): ' + ', '.join(sorted(res))
    meta['caught_by'] = caught
    target = sid.split('-')[0]
    meta['target_check_signatures'] = res.get(target, {}).get('signatures', [])[:8]
    json.dump(meta, open(os.path.join(d, 'meta.json'), 'w'), indent=1)
    notes = open(os.path.join(d, 'notes.md')).read()
    first = ''
    for line in notes.split('\n'):
        line = line.strip(' #*-')
        if len(line) > 25:
            first = line
            break
    first = re.sub(r'\s+', ' ', first)[:150]
    others = [c for c in caught if c != target]
    verdict = 'yes' if target in caught else '**NO**'
    if target not in caught:
        for key, label in (('out_of_domain', 'no (outside the property\'s input domain)'), ('not_instantiated', 'no (needs an instantiation the harness does not make)'),
                           ('obsolete_after_fix', 'n/a (no longer breaking after a fix: commit)')):
            if meta.get(key):
                verdict = label
    rows.append('| %s | %s | %s | %s | %s |' % (sid, first.replace('|', '/'), verdict,
                                              ', '.join(others) or '-', ', '.join(inconc) or '-'))
print('| seed | change (first line of its notes) | caught by target check | also caught by | inconclusive |')
print('|---|---|---|---|---|')
print('\n'.join(rows))
