#!/bin/sh
# tools/confirm_seed.sh <worktree> <a|b> [cargo feature args for the demo]
# Confirms, in the scratch worktree: (1) suite passes with the change, (2) demo fails with it, (3) demo passes without it.
wt=$1; x=$2; shift 2; feat="$*"
cd "$wt" || exit 2
export CARGO_NET_OFFLINE=true
git checkout -q -- src || exit 2
mkdir -p /tmp/seed_hold && mv tests/seed_demo_*.rs /tmp/seed_hold/ 2>/dev/null
git apply _seed/$x/patch.diff || { echo "PATCH DOES NOT APPLY"; mv /tmp/seed_hold/*.rs tests/ 2>/dev/null; exit 2; }
suite=$(cargo test --offline --no-fail-fast 2>&1 | grep -E "^test result" | tr '\n' ' ')
cp _seed/$x/seed_demo_$x.rs tests/
demo_with=$(cargo test --offline $feat --test seed_demo_$x 2>&1 | grep -E "^test result|error(\[|:)" | head -3 | tr '\n' ' ')
git checkout -q -- src
demo_without=$(cargo test --offline $feat --test seed_demo_$x 2>&1 | grep -E "^test result|error(\[|:)" | head -3 | tr '\n' ' ')
rm -f tests/seed_demo_$x.rs
mv /tmp/seed_hold/*.rs tests/ 2>/dev/null
echo "suite_with_change: $suite"
echo "demo_with_change:  $demo_with"
echo "demo_without:      $demo_without"
