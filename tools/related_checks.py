#!/usr/bin/env python3
"""tools/related_checks.py <seed-id>...  -> for each seed: the target check plus every check whose property anchors
one of the files the seed's patch touches (printed as 'seed C01,C02,...')."""
import json
import os
import re
import sys

VERIF = os.path.dirname(os.path.dirname(os.path.abspath(__file__)))
props = [json.loads(l) for l in open(os.path.join(VERIF, 'properties.jsonl'))]
INCLUDES = {'src/moments/mod.rs': ['src/moments/mean.rs', 'src/moments/variance.rs', 'src/moments/skewness.rs', 'src/moments/kurtosis.rs']}
for sid in sys.argv[1:]:
    patch = open(os.path.join(VERIF, 'seeded', sid, 'patch.diff')).read()
    files = set(re.findall(r'^\+\+\+ b/(\S+)', patch, re.M))
    rel = {sid.split('/')[-1].split('-')[0]} if sid[0] == 'C' else set()
    for p in props:
        anch = set(p['anchors']['files'])
        for a in list(anch):
            anch.update(INCLUDES.get(a, []))
        if anch & files:
            rel.add(p['id'])
    print(sid, ','.join(sorted(rel)))
