#!/usr/bin/env python3
"""tools/collect_seed.py <Cxx> <a|b> [demo cargo feature args]
Confirm a sub-agent's seeded change in its scratch worktree (suite passes with it, demo fails with it, demo passes
without it) and, if all three hold, copy it to /verif/seeded/<Cxx>-<a|b>/ with a meta.json."""
import json
import os
import shutil
import subprocess
import sys

pid, x = sys.argv[1], sys.argv[2]
feat = ' '.join(sys.argv[3:])
wt = (os.environ.get('SEED_WT_PREFIX') or '/tmp/wt-') + pid
here = os.path.dirname(os.path.abspath(__file__))
r = subprocess.run('%s/confirm_seed.sh %s %s %s' % (here, wt, x, feat), shell=True, capture_output=True, text=True)
out = [l for l in r.stdout.split('\n') if l and not l.startswith('WARNING')]
print('\n'.join(out))
d = {l.split(':', 1)[0]: l.split(':', 1)[1].strip() for l in out if ':' in l}
suite_ok = 'FAILED' not in d.get('suite_with_change', 'FAILED') and d.get('suite_with_change', '').count('test result: ok') >= 3
demo_fails = 'FAILED' in d.get('demo_with_change', '') or 'error' in d.get('demo_with_change', '')
demo_passes = 'test result: ok' in d.get('demo_without', '') and 'FAILED' not in d.get('demo_without', '')
ok = suite_ok and demo_fails and demo_passes
print('CONFIRMED' if ok else 'NOT CONFIRMED', suite_ok, demo_fails, demo_passes)
if not ok:
    sys.exit(1)
dst = '/verif/seeded/%s-%s' % (pid, x)
os.makedirs(dst, exist_ok=True)
for f in ('patch.diff', 'seed_demo_%s.rs' % x, 'notes.md'):
    shutil.copy(os.path.join(wt, '_seed', x, f), dst)
notes = open(os.path.join(dst, 'notes.md')).read()
meta = {
    'id': '%s-%s' % (pid, x),
    'breaks_property': pid,
    'source': 'independent sub-agent given only the property text and a scratch worktree of /repo (HEAD %s)' % subprocess.run('git -C %s rev-parse --short HEAD' % wt, shell=True, capture_output=True, text=True).stdout.strip(),
    'needs_to_manifest': 'see notes.md',
    'demo': 'seed_demo_%s.rs (cargo test --offline %s --test seed_demo_%s)' % (x, feat, x),
    'confirmed_by_me_in_scratch_worktree': {
        'suite_with_change': d.get('suite_with_change'),
        'demo_with_change': d.get('demo_with_change'),
        'demo_without_change': d.get('demo_without'),
    },
    'checks_run': None,
    'caught_by': None,
}
json.dump(meta, open(os.path.join(dst, 'meta.json'), 'w'), indent=1)
print('stored in', dst)
