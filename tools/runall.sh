#!/bin/sh
# run every check of MANIFEST.json at the given tier (default quick); print one line per check
cd "$(dirname "$0")/.." || exit 2
tier=${1:-quick}
fail=0
for i in 01 02 03 04 05 06 07 08 09 10 11 12 13 14 15 16 17 18 19 20; do
  s=$(date +%s)
  out=$(./check C$i --tier "$tier" 2>/dev/null)
  rc=$?
  e=$(date +%s)
  echo "C$i rc=$rc $((e-s))s $(echo "$out" | tail -1 | cut -c1-150)"
  [ $rc -ne 0 ] && { fail=1; echo "$out" | grep -E "VIOLATION|INCONCLUSIVE|signature|KNOWN" | head -12; }
done
exit $fail
