#!/usr/bin/env python3
"""tools/seedlab.py <lab-number> [--checks target|all|C01,C02] [--tier quick] <seed-id>...
Bulk evaluation of seeded changes on a scratch lab: /tmp/lab<N>/repo (a git worktree of /repo at HEAD) and
/tmp/lab<N>/harness (a copy of /verif/harness whose path dependency points at the lab repo).  For every seed:
apply seeded/<id>/patch.diff in the lab repo, run the checks with VERIF_HARNESS / VERIF_OUT pointing into the lab,
undo.  Results go to /verif/seeded/<id>/lab_result.json.  /repo and /verif/evidence are never touched.
Remove a lab with: git -C /repo worktree remove --force /tmp/lab<N>/repo; rm -rf /tmp/lab<N>"""
import argparse
import json
import os
import shutil
import subprocess
import sys
import time

VERIF = os.path.dirname(os.path.dirname(os.path.abspath(__file__)))


def sh(cmd, **kw):
    return subprocess.run(cmd, shell=True, capture_output=True, text=True, **kw)


def setup(lab):
    base = '/tmp/lab%s' % lab
    repo = base + '/repo'
    if not os.path.isdir(repo):
        os.makedirs(base, exist_ok=True)
        r = sh('git -C /repo worktree add -q --detach %s HEAD' % repo)
        if r.returncode:
            sys.exit('cannot create lab repo: ' + r.stderr)
        shutil.copy('/repo/Cargo.lock', repo)
    head = sh('git -C /repo rev-parse HEAD').stdout.strip()
    sh('git -C %s checkout -q --detach %s' % (repo, head))
    h = base + '/harness'
    os.makedirs(h, exist_ok=True)
    sh('rsync -a --delete --exclude target %s/harness/ %s/' % (VERIF, h))
    t = open(h + '/Cargo.toml').read().replace('path = "/repo"', 'path = "%s"' % repo)
    open(h + '/Cargo.toml', 'w').write(t)
    return base, repo, h


def main():
    ap = argparse.ArgumentParser()
    ap.add_argument('lab')
    ap.add_argument('seeds', nargs='+')
    ap.add_argument('--checks', default='target')
    ap.add_argument('--tier', default='quick')
    ap.add_argument('--seed', default='1')
    a = ap.parse_args()
    base, repo, h = setup(a.lab)
    env = dict(os.environ, VERIF_HARNESS=h, VERIF_OUT=base + '/out', VERIF_SEED=a.seed, CARGO_NET_OFFLINE='true')
    for sid in a.seeds:
        d = os.path.join(VERIF, 'seeded', sid)
        target = sid.split('-')[0]
        if a.checks == 'target':
            checks = [target]
        elif a.checks == 'related':
            r = sh('%s/tools/related_checks.py %s' % (VERIF, sid))
            checks = r.stdout.split()[-1].split(',') if r.stdout.split() else [target]
        elif a.checks == 'all':
            checks = ['C%02d' % i for i in range(1, 21)]
        else:
            checks = a.checks.split(',')
        sh('git -C %s checkout -q -- .' % repo)
        r = sh('git -C %s apply %s/patch.diff' % (repo, d))
        if r.returncode:
            print('%s: patch does not apply: %s' % (sid, r.stderr.strip()))
            continue
        results = {}
        try:
            for c in checks:
                t0 = time.time()
                r = sh('./check %s --tier %s' % (c, a.tier), cwd=VERIF, env=env)
                sigs = sorted({l.strip()[10:] for l in r.stdout.split('\n') if l.strip().startswith('signature=')})
                results[c] = {'rc': r.returncode, 'signatures': sigs, 'wall_s': round(time.time() - t0, 1)}
                extra = [l for l in r.stdout.split('\n') if l.startswith('INCONCLUSIVE')][:1]
                print('%s %s rc=%d %5.1fs %s %s' % (sid, c, r.returncode, time.time() - t0, ' | '.join(sigs[:5])[:300], ' '.join(extra)[:200]))
                sys.stdout.flush()
        finally:
            sh('git -C %s checkout -q -- .' % repo)
        old = {}
        rp = os.path.join(d, 'lab_result.json')
        if os.path.exists(rp):
            old = json.load(open(rp))
        old.update(results)
        json.dump(old, open(rp, 'w'), indent=1)


if __name__ == '__main__':
    main()
