#!/usr/bin/env python3
"""tools/seedtest.py <patch.diff> [--checks C01,C02|all] [--tier quick] [--seed N]
Apply a seeded change to /repo, run the given checks, undo the change straight afterwards.
Prints for every check: rc and the distinct violation signatures.  Never leaves /repo dirty."""
import argparse
import json
import os
import subprocess
import sys
import time

VERIF = os.path.dirname(os.path.dirname(os.path.abspath(__file__)))


def sh(cmd, **kw):
    return subprocess.run(cmd, shell=True, capture_output=True, text=True, **kw)


def main():
    ap = argparse.ArgumentParser()
    ap.add_argument('patch')
    ap.add_argument('--checks', default='all')
    ap.add_argument('--tier', default='quick')
    ap.add_argument('--seed', default='1')
    ap.add_argument('--json')
    a = ap.parse_args()
    st = sh('git -C /repo status --porcelain --untracked-files=no').stdout.strip()
    if st:
        print('refusing: /repo has uncommitted changes:\n' + st)
        return 2
    r = sh('git -C /repo apply %s' % os.path.abspath(a.patch))
    if r.returncode != 0:
        print('patch does not apply: ' + r.stderr)
        return 2
    checks = ['C%02d' % i for i in range(1, 21)] if a.checks == 'all' else a.checks.split(',')
    results = {}
    try:
        for c in checks:
            t0 = time.time()
            env = dict(os.environ, VERIF_SEED=a.seed)
            r = sh('./check %s --tier %s' % (c, a.tier), cwd=VERIF, env=env)
            sigs = sorted({l.strip()[10:] for l in r.stdout.split('\n') if l.strip().startswith('signature=')})
            results[c] = {'rc': r.returncode, 'signatures': sigs, 'wall_s': round(time.time() - t0, 1)}
            tail = [l for l in r.stdout.split('\n') if l.startswith(('INCONCLUSIVE', 'KNOWN'))][:2]
            print('%s rc=%d %5.1fs %s %s' % (c, r.returncode, time.time() - t0, ' | '.join(sigs[:6]), ' '.join(tail)[:200]))
            sys.stdout.flush()
    finally:
        sh('git -C /repo checkout -- .')
        st = sh('git -C /repo status --porcelain --untracked-files=no').stdout.strip()
        if st:
            print('WARNING: /repo still dirty: ' + st)
    if a.json:
        json.dump(results, open(a.json, 'w'), indent=1)
    caught = [c for c, v in results.items() if v['rc'] == 1]
    print('caught by: %s' % (', '.join(caught) or 'NONE'))
    return 0


if __name__ == '__main__':
    sys.exit(main())
