//! Uniform adapter over every estimator type so that the interpreter in main.rs can be
//! generic.  No oracle knowledge lives here: every method calls the crate and returns
//! what came back.
#![allow(clippy::all)]

use std::fmt::Write as _;
use std::panic::{catch_unwind, AssertUnwindSafe};

use average::{Estimate, Merge};
#[cfg(feature = "rayon")]
use rayon::iter::{
    FromParallelIterator, IndexedParallelIterator, IntoParallelIterator, IntoParallelRefIterator,
    ParallelIterator,
};

#[cfg(not(feature = "serde"))]
use crate::serde_json;

use crate::types::*;

pub fn hex(x: f64) -> String {
    format!("{:016x}", x.to_bits())
}

/// Collected observation record: `name=value` pairs.
pub struct Obs {
    pub s: String,
}

impl Obs {
    pub fn new() -> Obs {
        Obs { s: String::new() }
    }
    pub fn f(&mut self, name: &str, g: impl FnOnce() -> f64) {
        #[cfg(not(any(feature = "std", feature = "libm")))]
        ABSENT.with(|a| a.set(false));
        match catch_unwind(AssertUnwindSafe(g)) {
            #[cfg(not(any(feature = "std", feature = "libm")))]
            Ok(_) if ABSENT.with(|a| a.get()) => {}
            Ok(v) => write!(self.s, " {}={}", name, hex(v)).unwrap(),
            Err(_) => write!(self.s, " {}=!", name).unwrap(),
        }
    }
    pub fn u(&mut self, name: &str, g: impl FnOnce() -> u64) {
        match catch_unwind(AssertUnwindSafe(g)) {
            Ok(v) => write!(self.s, " {}=u{}", name, v).unwrap(),
            Err(_) => write!(self.s, " {}=!", name).unwrap(),
        }
    }
    pub fn b(&mut self, name: &str, g: impl FnOnce() -> bool) {
        match catch_unwind(AssertUnwindSafe(g)) {
            Ok(v) => write!(self.s, " {}=b{}", name, v as u8).unwrap(),
            Err(_) => write!(self.s, " {}=!", name).unwrap(),
        }
    }
    pub fn raw(&mut self, name: &str, v: &str) {
        write!(self.s, " {}={}", name, v).unwrap();
    }
}

#[cfg(not(feature = "serde"))]
pub fn flatten(v: &serde_json::Value, _prefix: &str, _out: &mut String) {
    match *v {}
}

/// Flatten a serde_json::Value into `path=value` pairs (f64 as bit pattern).
#[cfg(feature = "serde")]
pub fn flatten(v: &serde_json::Value, prefix: &str, out: &mut String) {
    use serde_json::Value;
    fn scalar(v: &Value) -> Option<String> {
        match v {
            Value::Null => Some("null".to_string()),
            Value::Bool(b) => Some(format!("b{}", *b as u8)),
            Value::Number(n) => {
                if let Some(u) = n.as_u64() {
                    Some(format!("u{}", u))
                } else if let Some(i) = n.as_i64() {
                    Some(format!("i{}", i))
                } else {
                    Some(hex(n.as_f64().unwrap()))
                }
            }
            Value::String(s) => Some(format!("s{}", s.replace(' ', "_"))),
            _ => None,
        }
    }
    match v {
        Value::Object(m) => {
            for (k, x) in m {
                let p = if prefix.is_empty() { k.clone() } else { format!("{}.{}", prefix, k) };
                flatten(x, &p, out);
            }
        }
        Value::Array(a) => {
            if a.iter().all(|x| scalar(x).is_some()) {
                let parts: Vec<String> = a.iter().map(|x| scalar(x).unwrap()).collect();
                write!(out, " {}={}", prefix, parts.join(",")).unwrap();
            } else {
                for (i, x) in a.iter().enumerate() {
                    flatten(x, &format!("{}.{}", prefix, i), out);
                }
            }
        }
        other => {
            write!(out, " {}={}", prefix, scalar(other).unwrap()).unwrap();
        }
    }
}

#[derive(Clone, Debug)]
pub struct Params {
    pub p: f64,
}

#[derive(Clone, Debug)]
pub struct ParCfg {
    /// source is `iter().par_bridge()` (unindexed, items handed out in arbitrary order) instead of a slice
    pub bridge: bool,
    pub threads: usize,
    pub min_len: usize,
    pub max_len: usize,
    pub byref: bool,
    pub delay_seed: u64,
    /// 0 = no filter stage; otherwise a `filter` stage keeps the items with keep(x, seed),
    /// which makes some fold leaves empty (an unindexed iterator with holes).
    pub filter_seed: u64,
    /// alternative filter stage: keep x >= threshold (NaN = off).  With ascending data this empties almost all of
    /// the leading fold leaves, so that a tiny left partial result meets a huge right one in the reduction.
    pub filter_ge: f64,
}

#[inline]
fn mix(x: f64, seed: u64) -> u64 {
    let mut h = x.to_bits() ^ seed.wrapping_mul(0x9E3779B97F4A7C15);
    h ^= h >> 33;
    h = h.wrapping_mul(0xff51afd7ed558ccd);
    h ^= h >> 33;
    h
}

/// The filter predicate of the `P` op (mirrored in monitors/c19.py).
#[inline]
pub fn keep(x: f64, seed: u64) -> bool {
    seed == 0 || mix(x, seed) % 3 != 0
}

#[inline]
pub fn keep2(x: f64, seed: u64, ge: f64) -> bool {
    keep(x, seed) && !(x < ge)
}

pub trait Est: Sized + Clone {
    const ARITY: usize = 1;
    fn mk_new(p: &Params) -> Self;
    fn mk_default() -> Self;
    fn add1(&mut self, v: &[f64]);
    /// `add` reached through the `Estimate` trait (as code generic over `E: Estimate` reaches it) rather than by method
    /// syntax on the concrete type, which would prefer an inherent method of the same name.
    fn add1_trait(&mut self, _v: &[f64]) -> bool {
        false
    }
    fn from_val(_v: &[f64]) -> Option<Self> {
        None
    }
    fn from_ref(_v: &[f64]) -> Option<Self> {
        None
    }
    fn ext_val(&mut self, _v: &[f64]) -> bool {
        false
    }
    fn ext_ref(&mut self, _v: &[f64]) -> bool {
        false
    }
    fn merge_from(&mut self, _o: &Self) -> bool {
        false
    }
    /// collect from a *generated* iterator (not a slice): n items, all `base` except item `pos` = `ext`
    fn from_gen(_n: usize, _pos: usize, _base: f64, _ext: f64, _byref: bool) -> Option<Self> {
        None
    }
    fn ext_gen(&mut self, _n: usize, _pos: usize, _base: f64, _ext: f64, _byref: bool) -> bool {
        false
    }
    fn from_value_ctor(_v: f64) -> Option<Self> {
        None
    }
    fn obs(&self, o: &mut Obs);
    fn to_json(&self) -> Option<String> {
        None
    }
    fn from_json(_s: &str) -> Option<Result<Self, String>> {
        None
    }
    fn to_value(&self) -> Option<serde_json::Value> {
        None
    }
    fn from_value(_v: serde_json::Value) -> Option<Result<Self, String>> {
        None
    }
    fn par(_cfg: &ParCfg, _data: &[f64]) -> Option<Self> {
        None
    }
}

// ---------------------------------------------------------------------------------------
// Accessors that exist only with the `std` / `libm` features.  In a build without them (`bare`) the calls below resolve to
// this fallback trait, which reports "absent"; should the crate provide the inherent method there too, method resolution
// prefers it and its value is observed like any other.
#[cfg(not(any(feature = "std", feature = "libm")))]
thread_local! { pub static ABSENT: std::cell::Cell<bool> = std::cell::Cell::new(false); }
#[cfg(not(any(feature = "std", feature = "libm")))]
pub trait FloatFnFallback {
    fn error(&self) -> f64 {
        ABSENT.with(|a| a.set(true));
        f64::NAN
    }
    fn pearson(&self) -> f64 {
        ABSENT.with(|a| a.set(true));
        f64::NAN
    }
}
#[cfg(not(any(feature = "std", feature = "libm")))]
impl FloatFnFallback for average::Variance {}
#[cfg(not(any(feature = "std", feature = "libm")))]
impl FloatFnFallback for average::WeightedMeanWithError {}
#[cfg(not(any(feature = "std", feature = "libm")))]
impl FloatFnFallback for average::Covariance {}

// ---------------------------------------------------------------------------------------
// rayon plumbing

#[cfg(feature = "rayon")]
fn with_pool<R: Send>(threads: usize, f: impl FnOnce() -> R + Send) -> R {
    use std::collections::HashMap;
    use std::sync::{Arc, Mutex, OnceLock};
    static POOLS: OnceLock<Mutex<HashMap<usize, Arc<rayon::ThreadPool>>>> = OnceLock::new();
    let pools = POOLS.get_or_init(|| Mutex::new(HashMap::new()));
    let pool = {
        let mut g = pools.lock().unwrap();
        g.entry(threads)
            .or_insert_with(|| {
                Arc::new(rayon::ThreadPoolBuilder::new().num_threads(threads).build().unwrap())
            })
            .clone()
    };
    pool.install(f)
}

/// Delay injection at a real suspension point: between the items of a fold, which is
/// where rayon's work stealing happens.  Pseudo-random in (value, seed); seed 0 = off.
#[cfg(feature = "rayon")]
#[inline]
fn delay(x: f64, seed: u64) {
    if seed == 0 {
        return;
    }
    let h = mix(x, seed);
    match h % 16 {
        0 | 1 => std::thread::yield_now(),
        2 => {
            let mut acc = 0u64;
            for i in 0..(200 + (h >> 8) % 2000) {
                acc = acc.wrapping_add(std::hint::black_box(i));
            }
            std::hint::black_box(acc);
        }
        _ => {}
    }
}

#[cfg(feature = "rayon")]
pub fn par_collect<T>(cfg: &ParCfg, data: &[f64]) -> T
where
    T: FromParallelIterator<f64> + for<'a> FromParallelIterator<&'a f64> + Send,
{
    let seed = cfg.delay_seed;
    let min_len = cfg.min_len;
    let max_len = cfg.max_len;
    let byref = cfg.byref;
    let fseed = cfg.filter_seed;
    let fge = cfg.filter_ge;
    let bridge = cfg.bridge;
    with_pool(cfg.threads, move || {
        if bridge {
            use rayon::iter::ParallelBridge;
            if byref {
                data.iter().par_bridge().filter(|x| keep2(**x, fseed, fge)).map(|x| { delay(*x, seed); x }).collect()
            } else {
                data.to_vec().into_iter().par_bridge().filter(|x| keep2(*x, fseed, fge)).map(|x| { delay(x, seed); x }).collect()
            }
        } else if byref {
            let it = data.par_iter();
            match (min_len, max_len) {
                (0, 0) => it.filter(|x| keep2(**x, fseed, fge)).map(|x| { delay(*x, seed); x }).collect(),
                (a, 0) => it.with_min_len(a).filter(|x| keep2(**x, fseed, fge)).map(|x| { delay(*x, seed); x }).collect(),
                (0, b) => it.with_max_len(b).filter(|x| keep2(**x, fseed, fge)).map(|x| { delay(*x, seed); x }).collect(),
                (a, b) => it.with_min_len(a).with_max_len(b).filter(|x| keep2(**x, fseed, fge)).map(|x| { delay(*x, seed); x }).collect(),
            }
        } else {
            let it = data.to_vec().into_par_iter();
            match (min_len, max_len) {
                (0, 0) => it.filter(|x| keep2(*x, fseed, fge)).map(|x| { delay(x, seed); x }).collect(),
                (a, 0) => it.with_min_len(a).filter(|x| keep2(*x, fseed, fge)).map(|x| { delay(x, seed); x }).collect(),
                (0, b) => it.with_max_len(b).filter(|x| keep2(*x, fseed, fge)).map(|x| { delay(x, seed); x }).collect(),
                (a, b) => it.with_min_len(a).with_max_len(b).filter(|x| keep2(*x, fseed, fge)).map(|x| { delay(x, seed); x }).collect(),
            }
        }
    })
}

// ---------------------------------------------------------------------------------------
// impl helpers

#[cfg(not(feature = "serde"))]
macro_rules! serde_fns {
    () => {};
}

#[cfg(feature = "serde")]
macro_rules! serde_fns {
    () => {
        fn to_json(&self) -> Option<String> {
            Some(serde_json::to_string(self).unwrap())
        }
        fn from_json(s: &str) -> Option<Result<Self, String>> {
            Some(serde_json::from_str(s).map_err(|e| e.to_string()))
        }
        fn to_value(&self) -> Option<serde_json::Value> {
            Some(serde_json::to_value(self).unwrap())
        }
        fn from_value(v: serde_json::Value) -> Option<Result<Self, String>> {
            Some(serde_json::from_value(v).map_err(|e| e.to_string()))
        }
    };
}

macro_rules! single_common {
    ($t:ty) => {
        fn mk_new(_p: &Params) -> Self {
            <$t>::new()
        }
        fn mk_default() -> Self {
            <$t as Default>::default()
        }
        fn add1(&mut self, v: &[f64]) {
            self.add(v[0]);
        }
        fn from_val(v: &[f64]) -> Option<Self> {
            Some(v.iter().copied().collect())
        }
        fn from_ref(v: &[f64]) -> Option<Self> {
            Some(v.iter().collect())
        }
        fn merge_from(&mut self, o: &Self) -> bool {
            self.merge(o);
            true
        }
        fn from_gen(n: usize, pos: usize, base: f64, ext: f64, byref: bool) -> Option<Self> {
            if byref {
                let v: Vec<f64> = (0..n).map(|i| if i == pos { ext } else { base }).collect();
                Some(v.iter().collect())
            } else {
                Some((0..n).map(|i| if i == pos { ext } else { base }).collect())
            }
        }
        #[cfg(feature = "rayon")]
        fn par(cfg: &ParCfg, data: &[f64]) -> Option<Self> {
            Some(par_collect::<$t>(cfg, data))
        }
        serde_fns!();
    };
}

macro_rules! trait_add {
    ($t:ty) => {
        fn add1_trait(&mut self, v: &[f64]) -> bool {
            <$t as average::Estimate>::add(self, v[0]);
            true
        }
    };
}

macro_rules! extend_fns {
    () => {
        fn ext_val(&mut self, v: &[f64]) -> bool {
            self.extend(v.iter().copied());
            true
        }
        fn ext_ref(&mut self, v: &[f64]) -> bool {
            self.extend(v.iter());
            true
        }
        fn ext_gen(&mut self, n: usize, pos: usize, base: f64, ext: f64, byref: bool) -> bool {
            if byref {
                let v: Vec<f64> = (0..n).map(|i| if i == pos { ext } else { base }).collect();
                self.extend(v.iter());
            } else {
                self.extend((0..n).map(|i| if i == pos { ext } else { base }));
            }
            true
        }
    };
}

impl Est for average::Mean {
    single_common!(average::Mean);
    trait_add!(average::Mean);
    extend_fns!();
    fn obs(&self, o: &mut Obs) {
        o.u("len", || self.len());
        o.b("is_empty", || self.is_empty());
        o.f("mean", || self.mean());
        o.f("estimate", || self.estimate());
    }
}

impl Est for average::Variance {
    single_common!(average::Variance);
    trait_add!(average::Variance);
    extend_fns!();
    fn obs(&self, o: &mut Obs) {
        o.u("len", || self.len());
        o.b("is_empty", || self.is_empty());
        o.f("mean", || self.mean());
        o.f("sample_variance", || self.sample_variance());
        o.f("population_variance", || self.population_variance());
        o.f("variance_of_mean", || self.variance_of_mean());
        o.f("error", || self.error());
        o.f("estimate", || self.estimate());
    }
}

#[cfg(any(feature = "std", feature = "libm"))]
impl Est for average::Skewness {
    single_common!(average::Skewness);
    trait_add!(average::Skewness);
    extend_fns!();
    fn obs(&self, o: &mut Obs) {
        o.u("len", || self.len());
        o.b("is_empty", || self.is_empty());
        o.f("mean", || self.mean());
        o.f("sample_variance", || self.sample_variance());
        o.f("population_variance", || self.population_variance());
        o.f("error_mean", || self.error_mean());
        o.f("skewness", || self.skewness());
        o.f("estimate", || self.estimate());
    }
}

#[cfg(any(feature = "std", feature = "libm"))]
impl Est for average::Kurtosis {
    single_common!(average::Kurtosis);
    trait_add!(average::Kurtosis);
    extend_fns!();
    fn obs(&self, o: &mut Obs) {
        o.u("len", || self.len());
        o.b("is_empty", || self.is_empty());
        o.f("mean", || self.mean());
        o.f("sample_variance", || self.sample_variance());
        o.f("population_variance", || self.population_variance());
        o.f("error_mean", || self.error_mean());
        o.f("skewness", || self.skewness());
        o.f("kurtosis", || self.kurtosis());
        o.f("estimate", || self.estimate());
    }
}

macro_rules! moments_est {
    ($t:ty, $n:expr) => {
        impl Est for $t {
            single_common!($t);
            extend_fns!();
            fn obs(&self, o: &mut Obs) {
                o.u("len", || self.len());
                o.b("is_empty", || self.is_empty());
                o.f("mean", || self.mean());
                for p in 0..=$n {
                    o.f(&format!("cm{}", p), || self.central_moment(p));
                }
                #[cfg(any(feature = "std", feature = "libm"))]
                for p in 0..=$n {
                    o.f(&format!("sm{}", p), || self.standardized_moment(p));
                }
                o.f("sample_variance", || self.sample_variance());
                #[cfg(any(feature = "std", feature = "libm"))]
                o.f("sample_skewness", || self.sample_skewness());
                #[cfg(any(feature = "std", feature = "libm"))]
                o.f("sample_excess_kurtosis", || self.sample_excess_kurtosis());
            }
        }
    };
}
moments_est!(average::Moments4, 4usize);
moments_est!(M4, 4usize);
moments_est!(M5, 5usize);
moments_est!(M6, 6usize);
moments_est!(M7, 7usize);
moments_est!(M8, 8usize);
moments_est!(M9, 9usize);
moments_est!(M10, 10usize);
moments_est!(M12, 12usize);
moments_est!(M17, 17usize);
moments_est!(M20, 20usize);

impl Est for average::Min {
    single_common!(average::Min);
    trait_add!(average::Min);
    extend_fns!();
    fn from_value_ctor(v: f64) -> Option<Self> {
        Some(average::Min::from_value(v))
    }
    fn obs(&self, o: &mut Obs) {
        o.f("min", || self.min());
        o.f("estimate", || self.estimate());
    }
}

impl Est for average::Max {
    single_common!(average::Max);
    trait_add!(average::Max);
    // Max has no Extend impl in the crate.
    fn from_value_ctor(v: f64) -> Option<Self> {
        Some(average::Max::from_value(v))
    }
    fn obs(&self, o: &mut Obs) {
        o.f("max", || self.max());
        o.f("estimate", || self.estimate());
    }
}

#[cfg(any(feature = "std", feature = "libm"))]
impl Est for average::Quantile {
    fn mk_new(p: &Params) -> Self {
        average::Quantile::new(p.p)
    }
    fn mk_default() -> Self {
        <average::Quantile as Default>::default()
    }
    fn add1(&mut self, v: &[f64]) {
        self.add(v[0]);
    }
    fn add1_trait(&mut self, v: &[f64]) -> bool {
        <average::Quantile as average::Estimate>::add(self, v[0]);
        true
    }
    serde_fns!();
    fn obs(&self, o: &mut Obs) {
        o.f("p", || self.p());
        o.u("len", || self.len());
        o.b("is_empty", || self.is_empty());
        o.f("quantile", || self.quantile());
        o.f("estimate", || self.estimate());
    }
}

// --- pair estimators -------------------------------------------------------------------

fn pairs(v: &[f64]) -> Vec<(f64, f64)> {
    v.chunks(2).map(|c| (c[0], c[1])).collect()
}

macro_rules! pair_common {
    ($t:ty) => {
        const ARITY: usize = 2;
        fn mk_new(_p: &Params) -> Self {
            <$t>::new()
        }
        fn mk_default() -> Self {
            <$t as Default>::default()
        }
        fn add1(&mut self, v: &[f64]) {
            self.add(v[0], v[1]);
        }
        fn from_val(v: &[f64]) -> Option<Self> {
            Some(pairs(v).into_iter().collect())
        }
        fn from_ref(v: &[f64]) -> Option<Self> {
            let p = pairs(v);
            Some(p.iter().collect())
        }
        fn ext_val(&mut self, v: &[f64]) -> bool {
            self.extend(pairs(v).into_iter());
            true
        }
        fn ext_ref(&mut self, v: &[f64]) -> bool {
            let p = pairs(v);
            self.extend(p.iter());
            true
        }
        fn merge_from(&mut self, o: &Self) -> bool {
            self.merge(o);
            true
        }
        serde_fns!();
    };
}

impl Est for average::WeightedMean {
    pair_common!(average::WeightedMean);
    fn obs(&self, o: &mut Obs) {
        o.b("is_empty", || self.is_empty());
        o.f("sum_weights", || self.sum_weights());
        o.f("mean", || self.mean());
    }
}

impl Est for average::WeightedMeanWithError {
    pair_common!(average::WeightedMeanWithError);
    fn obs(&self, o: &mut Obs) {
        o.u("len", || self.len());
        o.b("is_empty", || self.is_empty());
        o.f("sum_weights", || self.sum_weights());
        o.f("sum_weights_sq", || self.sum_weights_sq());
        o.f("weighted_mean", || self.weighted_mean());
        o.f("unweighted_mean", || self.unweighted_mean());
        o.f("effective_len", || self.effective_len());
        o.f("population_variance", || self.population_variance());
        o.f("sample_variance", || self.sample_variance());
        o.f("variance_of_weighted_mean", || self.variance_of_weighted_mean());
        o.f("error", || self.error());
    }
}

impl Est for average::Covariance {
    pair_common!(average::Covariance);
    fn obs(&self, o: &mut Obs) {
        o.u("len", || self.len());
        o.b("is_empty", || self.is_empty());
        o.f("mean_x", || self.mean_x());
        o.f("mean_y", || self.mean_y());
        o.f("sample_variance_x", || self.sample_variance_x());
        o.f("population_variance_x", || self.population_variance_x());
        o.f("sample_variance_y", || self.sample_variance_y());
        o.f("population_variance_y", || self.population_variance_y());
        o.f("sample_covariance", || self.sample_covariance());
        o.f("population_covariance", || self.population_covariance());
        o.f("pearson", || self.pearson());
    }
}

// --- concatenate! structs ---------------------------------------------------------------
// They have no Clone; registers need Clone only for the `K` op, so give them a manual
// "clone by replay" impossibility: we wrap them with the list of samples fed so far.

macro_rules! cat_est {
    ($w:ident, $t:ty, [$($stat:ident),+]) => {
        /// Wrapper: the concatenated struct plus the samples fed (to make `Clone` possible
        /// by re-feeding a fresh struct; concatenate! derives no Clone).
        pub struct $w {
            pub inner: $t,
            fed: Vec<f64>,
            how: u8,
        }
        impl Clone for $w {
            fn clone(&self) -> Self {
                let mut inner = match self.how {
                    0 => <$t>::new(),
                    _ => <$t as Default>::default(),
                };
                for &x in &self.fed {
                    inner.add(x);
                }
                $w { inner, fed: self.fed.clone(), how: self.how }
            }
        }
        impl Est for $w {
            fn mk_new(_p: &Params) -> Self {
                $w { inner: <$t>::new(), fed: vec![], how: 0 }
            }
            fn mk_default() -> Self {
                $w { inner: <$t as Default>::default(), fed: vec![], how: 1 }
            }
            fn add1(&mut self, v: &[f64]) {
                self.fed.push(v[0]);
                self.inner.add(v[0]);
            }
            fn from_val(v: &[f64]) -> Option<Self> {
                Some($w { inner: v.iter().copied().collect(), fed: v.to_vec(), how: 0 })
            }
            fn from_ref(v: &[f64]) -> Option<Self> {
                Some($w { inner: v.iter().collect(), fed: v.to_vec(), how: 0 })
            }
            fn obs(&self, o: &mut Obs) {
                $( o.f(stringify!($stat), || self.inner.$stat()); )+
            }
        }
    };
}
cat_est!(WCatMinMax, CatMinMax, [min, max]);
#[cfg(any(feature = "std", feature = "libm"))]
cat_est!(WCatVarQ, CatVarQ, [mean, sample_variance, population_variance, error, quantile]);
#[cfg(any(feature = "std", feature = "libm"))]
cat_est!(
    WCat5,
    Cat5,
    [mean, kurtosis, skewness, population_variance, min, max, sample_variance, sample_skewness,
     sample_excess_kurtosis]
);
#[cfg(any(feature = "std", feature = "libm"))]
cat_est!(WCatSk3, CatSk3, [skewness, error, mean]);
