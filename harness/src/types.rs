//! Instantiations of the crate's exported macros, as a downstream user would write them.
//! Each `define_moments!` lives in its own module because the macro defines helper items
//! (`IterBinomial`, `MAX_MOMENT`) at module level.
#![allow(dead_code)]

pub mod m4 {
    average::define_moments!(M4, 4);
}
pub mod m5 {
    average::define_moments!(M5, 5);
}
pub mod m6 {
    average::define_moments!(M6, 6);
}
pub mod m7 {
    average::define_moments!(M7, 7);
}
pub mod m8 {
    average::define_moments!(M8, 8);
}
pub mod m9 {
    average::define_moments!(M9, 9);
}
pub mod m10 {
    average::define_moments!(M10, 10);
}
pub mod m12 {
    average::define_moments!(M12, 12);
}
pub mod m17 {
    average::define_moments!(M17, 17);
}
pub mod m20 {
    average::define_moments!(M20, 20);
}
pub use m10::M10;
pub use m12::M12;
pub use m17::M17;
pub use m20::M20;
pub use m4::M4;
pub use m5::M5;
pub use m6::M6;
pub use m7::M7;
pub use m8::M8;
pub use m9::M9;

average::define_histogram!(hist1, 1);
average::define_histogram!(hist2, 2);
average::define_histogram!(hist3, 3);
average::define_histogram!(hist4, 4);
average::define_histogram!(hist7, 7);
average::define_histogram!(hist10, 10);
average::define_histogram!(hist15, 15);
average::define_histogram!(hist16, 16);
average::define_histogram!(hist31, 31);
average::define_histogram!(hist33, 33);
average::define_histogram!(hist64, 64);
average::define_histogram!(hist100, 100);
average::define_histogram!(hist127, 127);

pub use hist1::Histogram as H1;
pub use hist10::Histogram as H10;
pub use hist127::Histogram as H127;
pub use hist15::Histogram as H15;
pub use hist16::Histogram as H16;
pub use hist31::Histogram as H31;
pub use hist33::Histogram as H33;
pub use hist64::Histogram as H64;
pub use hist100::Histogram as H100;
pub use hist2::Histogram as H2;
pub use hist3::Histogram as H3;
pub use hist4::Histogram as H4;
pub use hist7::Histogram as H7;

// concatenate! users.  Short syntax, long syntax with several statistics per estimator,
// an estimator without Merge (Quantile), a define_moments! type, and a pub struct.
pub mod cat {
    #[cfg(any(feature = "std", feature = "libm"))]
    use super::M6;
    use average::{concatenate, Estimate, Max, Min};
    #[cfg(any(feature = "std", feature = "libm"))]
    use average::{Kurtosis, Mean, Quantile, Skewness, Variance};

    concatenate!(pub CatMinMax, [Min, min], [Max, max]);

    #[cfg(any(feature = "std", feature = "libm"))]
    concatenate!(
        pub CatVarQ,
        [Variance, variance, mean, sample_variance, population_variance, error],
        [Quantile, quant, quantile]
    );

    #[cfg(any(feature = "std", feature = "libm"))]
    concatenate!(
        pub Cat5,
        [Mean, mean_e, mean],
        [Kurtosis, kurt, kurtosis, skewness, population_variance],
        [Min, mn, min],
        [Max, mx, max],
        [M6, mom, sample_variance, sample_skewness, sample_excess_kurtosis]
    );

    #[cfg(any(feature = "std", feature = "libm"))]
    concatenate!(
        pub CatSk3,
        [Skewness, skewness],
        [Variance, error],
        [Mean, mean]
    );
}
pub use cat::CatMinMax;
#[cfg(any(feature = "std", feature = "libm"))]
pub use cat::{Cat5, CatSk3, CatVarQ};
