//! Uniform adapter over the macro-generated histograms (and, with the `nightly` feature,
//! the const-generic `average::histogram_const::Histogram<LEN>`).
#![allow(clippy::all)]

use std::fmt::Write as _;
use std::panic::{catch_unwind, AssertUnwindSafe};

#[cfg(not(feature = "serde"))]
use crate::serde_json;
use crate::est::hex;

pub trait HistT: Sized + Clone {
    const LEN: usize;
    fn h_from_ranges(v: Vec<f64>) -> Result<Self, String>;
    /// from_ranges fed through `filter` (size_hint lower bound 0, no exact length)
    fn h_from_ranges_filtered(v: Vec<f64>) -> Result<Self, String>;
    /// from_ranges fed by an UNBOUNDED iterator (the given values followed by +inf forever); returns the
    /// result and how many items were polled.  The iterator panics after `limit` polls (a runaway reader).
    fn h_from_ranges_unbounded(v: Vec<f64>, limit: usize) -> (Result<Self, String>, usize);
    fn h_const_width(a: f64, b: f64) -> Self;
    fn h_find(&self, x: f64) -> Result<usize, ()>;
    fn h_add(&mut self, x: f64) -> Result<(), ()>;
    fn h_ranges(&self) -> Vec<f64>;
    fn h_bins(&self) -> Vec<u64>;
    fn h_range_min(&self) -> f64;
    fn h_range_max(&self) -> f64;
    fn h_items(&self) -> Vec<((f64, f64), u64)>;
    fn h_items_into_iter(&self) -> Vec<((f64, f64), u64)>;
    /// items reached through Iterator::nth / skip / step_by rather than plain next(): (after nth(1), skip(2), step_by(2))
    fn h_items_jump(&self) -> Vec<((f64, f64), u64)>;
    fn h_widths(&self) -> Vec<f64>;
    fn h_centers(&self) -> Vec<f64>;
    fn h_normalized(&self) -> Vec<f64>;
    fn h_variances(&self) -> Vec<f64>;
    fn h_variance(&self, i: usize) -> f64;
    fn h_add_assign(&mut self, o: &Self);
    fn h_mul_assign(&mut self, k: u64);
    fn h_merge(&mut self, o: &Self);
    fn h_reset(&mut self);
    fn h_to_json(&self) -> Option<String>;
    fn h_from_json(s: &str) -> Option<Result<Self, String>>;
    fn h_to_value(&self) -> Option<serde_json::Value>;
    fn h_from_value(v: serde_json::Value) -> Option<Result<Self, String>>;
}

macro_rules! hist_common {
    ($len:expr, $err:path) => {
        const LEN: usize = $len;
        fn h_from_ranges(v: Vec<f64>) -> Result<Self, String> {
            Self::from_ranges(v.into_iter()).map_err(|e| {
                use $err as E;
                match e {
                    E::NotEnoughRanges => "NotEnoughRanges".to_string(),
                    E::NotSorted => "NotSorted".to_string(),
                    E::NaN => "NaN".to_string(),
                }
            })
        }
        fn h_from_ranges_filtered(v: Vec<f64>) -> Result<Self, String> {
            let it = v.into_iter().filter(|x| std::hint::black_box(*x == *x || *x != *x));
            Self::from_ranges(it).map_err(|e| {
                use $err as E;
                match e {
                    E::NotEnoughRanges => "NotEnoughRanges".to_string(),
                    E::NotSorted => "NotSorted".to_string(),
                    E::NaN => "NaN".to_string(),
                }
            })
        }
        fn h_from_ranges_unbounded(v: Vec<f64>, limit: usize) -> (Result<Self, String>, usize) {
            let polls = std::rc::Rc::new(std::cell::Cell::new(0usize));
            let p2 = polls.clone();
            let it = v.into_iter().chain(std::iter::repeat(f64::INFINITY)).inspect(move |_| {
                p2.set(p2.get() + 1);
                if p2.get() > limit {
                    panic!("from_ranges keeps reading an unbounded input ({} items polled)", p2.get());
                }
            });
            let r = Self::from_ranges(it).map_err(|e| {
                use $err as E;
                match e {
                    E::NotEnoughRanges => "NotEnoughRanges".to_string(),
                    E::NotSorted => "NotSorted".to_string(),
                    E::NaN => "NaN".to_string(),
                }
            });
            (r, polls.get())
        }
        fn h_const_width(a: f64, b: f64) -> Self {
            Self::with_const_width(a, b)
        }
        fn h_find(&self, x: f64) -> Result<usize, ()> {
            self.find(x).map_err(|_| ())
        }
        fn h_add(&mut self, x: f64) -> Result<(), ()> {
            self.add(x).map_err(|_| ())
        }
        fn h_ranges(&self) -> Vec<f64> {
            self.ranges().to_vec()
        }
        fn h_bins(&self) -> Vec<u64> {
            self.bins().to_vec()
        }
        fn h_range_min(&self) -> f64 {
            self.range_min()
        }
        fn h_range_max(&self) -> f64 {
            self.range_max()
        }
        fn h_items(&self) -> Vec<((f64, f64), u64)> {
            self.iter().collect()
        }
        fn h_items_into_iter(&self) -> Vec<((f64, f64), u64)> {
            let mut v = vec![];
            for it in self {
                v.push(it);
            }
            v
        }
        fn h_items_jump(&self) -> Vec<((f64, f64), u64)> {
            // separator items ((NaN, NaN), u64::MAX) between the three walks
            let sep = ((f64::NAN, f64::NAN), u64::MAX);
            let mut v = vec![];
            let mut it = self.iter();
            if let Some(x) = it.nth(1) {
                v.push(x);
            }
            v.extend(it);
            v.push(sep);
            v.extend(self.iter().skip(2));
            v.push(sep);
            v.extend(self.into_iter().step_by(2));
            v
        }
        fn h_widths(&self) -> Vec<f64> {
            self.widths().collect()
        }
        fn h_centers(&self) -> Vec<f64> {
            self.centers().collect()
        }
        fn h_normalized(&self) -> Vec<f64> {
            self.normalized_bins().collect()
        }
        fn h_variances(&self) -> Vec<f64> {
            self.variances().collect()
        }
        fn h_variance(&self, i: usize) -> f64 {
            self.variance(i)
        }
        fn h_add_assign(&mut self, o: &Self) {
            *self += o;
        }
        fn h_mul_assign(&mut self, k: u64) {
            *self *= k;
        }
        fn h_merge(&mut self, o: &Self) {
            average::Merge::merge(self, o);
        }
        fn h_reset(&mut self) {
            self.reset();
        }
    };
}

macro_rules! hist_macro_impl {
    ($t:ty, $len:expr) => {
        impl HistT for $t {
            hist_common!($len, average::InvalidRangeError);
            #[cfg(feature = "serde")]
            fn h_to_json(&self) -> Option<String> {
                Some(serde_json::to_string(self).unwrap())
            }
            #[cfg(feature = "serde")]
            fn h_from_json(s: &str) -> Option<Result<Self, String>> {
                Some(serde_json::from_str(s).map_err(|e| e.to_string()))
            }
            #[cfg(feature = "serde")]
            fn h_to_value(&self) -> Option<serde_json::Value> {
                Some(serde_json::to_value(self).unwrap())
            }
            #[cfg(feature = "serde")]
            fn h_from_value(v: serde_json::Value) -> Option<Result<Self, String>> {
                Some(serde_json::from_value(v).map_err(|e| e.to_string()))
            }
            #[cfg(not(feature = "serde"))]
            fn h_to_json(&self) -> Option<String> {
                None
            }
            #[cfg(not(feature = "serde"))]
            fn h_from_json(_s: &str) -> Option<Result<Self, String>> {
                None
            }
            #[cfg(not(feature = "serde"))]
            fn h_to_value(&self) -> Option<serde_json::Value> {
                None
            }
            #[cfg(not(feature = "serde"))]
            fn h_from_value(_v: serde_json::Value) -> Option<Result<Self, String>> {
                None
            }
        }
    };
}

mod macro_impls {
    use super::HistT;
    #[cfg(not(feature = "serde"))]
    use crate::serde_json;
    use crate::types::*;
    use average::Histogram as _;
    hist_macro_impl!(H1, 1);
    hist_macro_impl!(H2, 2);
    hist_macro_impl!(H3, 3);
    hist_macro_impl!(H4, 4);
    hist_macro_impl!(H7, 7);
    hist_macro_impl!(H10, 10);
    hist_macro_impl!(H15, 15);
    hist_macro_impl!(H16, 16);
    hist_macro_impl!(H31, 31);
    hist_macro_impl!(H33, 33);
    hist_macro_impl!(H64, 64);
    hist_macro_impl!(H100, 100);
    hist_macro_impl!(H127, 127);
    hist_macro_impl!(average::Histogram10, 10);
}

#[cfg(feature = "nightly")]
mod const_impls {
    use super::HistT;
    #[cfg(not(feature = "serde"))]
    use crate::serde_json;
    use average::histogram_const::Histogram;
    macro_rules! hist_const_impl {
        ($len:expr) => {
            impl HistT for Histogram<$len> {
                hist_common!($len, average::histogram_const::InvalidRangeError);
                // histogram_const has no serde support
                fn h_to_json(&self) -> Option<String> {
                    None
                }
                fn h_from_json(_s: &str) -> Option<Result<Self, String>> {
                    None
                }
                fn h_to_value(&self) -> Option<serde_json::Value> {
                    None
                }
                fn h_from_value(_v: serde_json::Value) -> Option<Result<Self, String>> {
                    None
                }
            }
        };
    }
    hist_const_impl!(1);
    hist_const_impl!(2);
    hist_const_impl!(3);
    hist_const_impl!(4);
    hist_const_impl!(7);
    hist_const_impl!(10);
    hist_const_impl!(15);
    hist_const_impl!(16);
    hist_const_impl!(31);
    hist_const_impl!(33);
    hist_const_impl!(64);
    hist_const_impl!(100);
    hist_const_impl!(127);
}

fn join_f(v: &[f64]) -> String {
    v.iter().map(|x| hex(*x)).collect::<Vec<_>>().join(",")
}

fn put<R>(s: &mut String, name: &str, g: impl FnOnce() -> R, fmt: impl FnOnce(R) -> String) {
    match catch_unwind(AssertUnwindSafe(g)) {
        Ok(v) => write!(s, " {}={}", name, fmt(v)).unwrap(),
        Err(_) => write!(s, " {}=!", name).unwrap(),
    }
}

pub fn observe<H: HistT>(h: &H, s: &mut String) {
    put(s, "ranges", || h.h_ranges(), |v| join_f(&v));
    put(s, "bins", || h.h_bins(), |v| {
        v.iter().map(|x| format!("u{}", x)).collect::<Vec<_>>().join(",")
    });
    put(s, "rmin", || h.h_range_min(), hex);
    put(s, "rmax", || h.h_range_max(), hex);
    let items = |v: Vec<((f64, f64), u64)>| {
        if v.is_empty() {
            return "-".to_string();
        }
        v.iter()
            .map(|((a, b), c)| format!("{}:{}:u{}", hex(*a), hex(*b), c))
            .collect::<Vec<_>>()
            .join(",")
    };
    put(s, "items", || h.h_items(), items);
    put(s, "items2", || h.h_items_into_iter(), items);
    put(s, "items_jump", || h.h_items_jump(), items);
    put(s, "widths", || h.h_widths(), |v| join_f(&v));
    put(s, "centers", || h.h_centers(), |v| join_f(&v));
    put(s, "normalized", || h.h_normalized(), |v| join_f(&v));
    put(s, "variances", || h.h_variances(), |v| join_f(&v));
    // variance(i) per bin, each separately guarded
    let mut parts = vec![];
    for i in 0..H::LEN {
        match catch_unwind(AssertUnwindSafe(|| h.h_variance(i))) {
            Ok(v) => parts.push(hex(v)),
            Err(_) => parts.push("!".to_string()),
        }
    }
    write!(s, " variance={}", parts.join(",")).unwrap();
}
