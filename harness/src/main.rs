//! avdrive — the *driver*: interprets case programs against the real `average` crate built
//! from /repo's working tree and prints what it observed.  It contains no oracle knowledge;
//! all judgement happens in /verif/monitors (Python), which read this program's output.
//!
//! Input (stdin or file argument): one op per line, whitespace separated; every f64 is its
//! 16-hex-digit bit pattern.
//!
//!   C <id> <Type> [p-hex]       start case; <Type> selects the estimator type
//!   N r | D r                   r = Type::new() | Type::default()
//!   Q r p                       r = Quantile::new(p)   (any estimator: new with param p)
//!   AT r x...                   like A, through the Estimate trait (UFCS) rather than method syntax
//!   KF a b                      a.clone_from(&b)  (K a b: a = b.clone())
//!   V r v                       r = Type::from_value(v)            (Min/Max)
//!   A r x...                    r.add(x) for each x (pairs for 2-ary estimators)
//!   AR r count x...             `count` adds, cycling through x...
//!   F r x... | FR r x...        r = collect by value | by reference
//!   E r x... | ER r x...        r.extend(by value | by reference)
//!   FG|FGR r n pos base ext     r = collect from a generated iterator of n items (all base, item pos = ext)
//!   EG|EGR r n pos base ext     r.extend(the same generated iterator)
//!   M r s                       r.merge(&s)
//!   K r s                       r = s.clone()
//!   S r j|v                     r = deserialize(serialize(r)) via JSON text | Value tree
//!   SO r j|v                    serialize r and drop the result
//!   P r T lo hi v|r dseed fseed x...   r = parallel collect in a T-thread pool, with delay
//!                               injection (dseed) and an optional filter stage (fseed) (C19)
//!   O r                         observe every public accessor
//!   OS r                        observe + dump serde-visible state
//!   T r depth a...              (Quantile tries) DFS over alphabet a... to depth, from r
//!   histogram ops (Type H<LEN> / CH<LEN>):
//!   HR r x...  from_ranges      HW r a b  with_const_width     HF r x... find each
//!   HRI r x... from_ranges fed by an unbounded iterator (x... then +inf forever), reports polls
//!   HA r x...  add each         H+ r s  +=     H* r k  *=      HZ r  reset
//!   M/K/S/O as above
//!   X                           end of case
//!
//! Output: `C <id>` ... records ... `X <id>`; records:
//!   o <op> <reg> name=value...      observation         s <op> <reg> path=value...  state
//!   p <op> <message>                op panicked         e <op> <message>  harness error
//!   r/f/a <op> ...                  histogram construction / find / add results
//!   t <op> <path> ...               trie node

mod est;
mod hist;
#[cfg(feature = "rayon")]
mod probe;
/// Stand-in so that signatures mentioning `serde_json::Value` still type-check when the driver is built without serde
/// (the crate's non-serde `define_moments!` / `define_histogram!` variants); never constructed.
#[cfg(not(feature = "serde"))]
mod serde_json {
    pub enum Value {}
}
mod types;

use std::fmt::Write as _;
use std::io::{Read, Write};
use std::panic::{catch_unwind, AssertUnwindSafe};

use est::{flatten, hex, Est, Obs, ParCfg, Params};
use hist::HistT;

fn pf(tok: &str) -> f64 {
    f64::from_bits(u64::from_str_radix(tok, 16).expect("bad f64 hex"))
}

fn pfs(toks: &[&str]) -> Vec<f64> {
    toks.iter().map(|t| pf(t)).collect()
}

thread_local! {
    static LAST_PANIC: std::cell::RefCell<String> = std::cell::RefCell::new(String::new());
}
static LAST_PANIC_ANY: std::sync::Mutex<String> = std::sync::Mutex::new(String::new());

fn take_panic() -> String {
    let s = LAST_PANIC.with(|c| std::mem::take(&mut *c.borrow_mut()));
    let any = std::mem::take(&mut *LAST_PANIC_ANY.lock().unwrap());
    let s = if s.is_empty() { any } else { s };
    s.replace('\n', " ")
}

fn guarded<R>(f: impl FnOnce() -> R) -> Result<R, String> {
    match catch_unwind(AssertUnwindSafe(f)) {
        Ok(r) => Ok(r),
        Err(_) => Err(take_panic()),
    }
}

fn reg(tok: &str) -> usize {
    tok.parse::<usize>().expect("bad register")
}

const NREG: usize = 32;

fn run_case<T: Est>(params: &[&str], ops: &[Vec<&str>], out: &mut String) {
    let p = Params { p: if !params.is_empty() { pf(params[0]) } else { 0.5 } };
    let mut regs: Vec<Option<T>> = (0..NREG).map(|_| None).collect();
    for (idx, op) in ops.iter().enumerate() {
        let code = op[0];
        macro_rules! need {
            ($r:expr) => {
                match regs[$r].as_mut() {
                    Some(x) => x,
                    None => {
                        writeln!(out, "e {} empty-register", idx).unwrap();
                        continue;
                    }
                }
            };
        }
        macro_rules! unsupported {
            () => {{
                writeln!(out, "e {} unsupported", idx).unwrap();
                continue;
            }};
        }
        match code {
            "N" => match guarded(|| T::mk_new(&p)) {
                Ok(v) => regs[reg(op[1])] = Some(v),
                Err(m) => writeln!(out, "p {} {}", idx, m).unwrap(),
            },
            "D" => match guarded(|| T::mk_default()) {
                Ok(v) => regs[reg(op[1])] = Some(v),
                Err(m) => writeln!(out, "p {} {}", idx, m).unwrap(),
            },
            "Q" => {
                let pp = Params { p: pf(op[2]) };
                match guarded(|| T::mk_new(&pp)) {
                    Ok(v) => {
                        regs[reg(op[1])] = Some(v);
                        writeln!(out, "q {} ok", idx).unwrap();
                    }
                    Err(m) => writeln!(out, "p {} {}", idx, m).unwrap(),
                }
            }
            "V" => match guarded(|| T::from_value_ctor(pf(op[2]))) {
                Ok(Some(v)) => regs[reg(op[1])] = Some(v),
                Ok(None) => unsupported!(),
                Err(m) => writeln!(out, "p {} {}", idx, m).unwrap(),
            },
            "A" => {
                let vals = pfs(&op[2..]);
                let r = need!(reg(op[1]));
                if let Err(m) = guarded(|| {
                    for c in vals.chunks(T::ARITY) {
                        r.add1(c);
                    }
                }) {
                    writeln!(out, "p {} {}", idx, m).unwrap();
                }
            }
            "AT" => {
                // like A, but through the Estimate trait (UFCS) instead of method syntax
                let vals = pfs(&op[2..]);
                let r = need!(reg(op[1]));
                match guarded(|| {
                    let mut ok = true;
                    for c in vals.chunks(T::ARITY) {
                        ok &= r.add1_trait(c);
                    }
                    ok
                }) {
                    Ok(true) => {}
                    Ok(false) => unsupported!(),
                    Err(m) => writeln!(out, "p {} {}", idx, m).unwrap(),
                }
            }
            "AR" => {
                // add the given observations cyclically until `count` adds were made (billions of adds without
                // billions of tokens): AR r count x...
                let count: u64 = op[2].parse().unwrap();
                let vals = pfs(&op[3..]);
                let r = need!(reg(op[1]));
                let chunks: Vec<&[f64]> = vals.chunks(T::ARITY).collect();
                if let Err(m) = guarded(|| {
                    let mut i = 0usize;
                    for _ in 0..count {
                        r.add1(chunks[i]);
                        i += 1;
                        if i == chunks.len() {
                            i = 0;
                        }
                    }
                }) {
                    writeln!(out, "p {} {}", idx, m).unwrap();
                }
            }
            "F" | "FR" => {
                let vals = pfs(&op[2..]);
                let res = guarded(|| if code == "F" { T::from_val(&vals) } else { T::from_ref(&vals) });
                match res {
                    Ok(Some(v)) => regs[reg(op[1])] = Some(v),
                    Ok(None) => unsupported!(),
                    Err(m) => writeln!(out, "p {} {}", idx, m).unwrap(),
                }
            }
            "FG" | "FGR" => {
                // FG r n pos base ext : collect from a generated iterator
                let (n, pos): (usize, usize) = (op[2].parse().unwrap(), op[3].parse().unwrap());
                let (base, ext) = (pf(op[4]), pf(op[5]));
                match guarded(|| T::from_gen(n, pos, base, ext, code == "FGR")) {
                    Ok(Some(v)) => regs[reg(op[1])] = Some(v),
                    Ok(None) => unsupported!(),
                    Err(m) => writeln!(out, "p {} {}", idx, m).unwrap(),
                }
            }
            "EG" | "EGR" => {
                let (n, pos): (usize, usize) = (op[2].parse().unwrap(), op[3].parse().unwrap());
                let (base, ext) = (pf(op[4]), pf(op[5]));
                let r = need!(reg(op[1]));
                match guarded(|| r.ext_gen(n, pos, base, ext, code == "EGR")) {
                    Ok(true) => {}
                    Ok(false) => unsupported!(),
                    Err(m) => writeln!(out, "p {} {}", idx, m).unwrap(),
                }
            }
            "E" | "ER" => {
                let vals = pfs(&op[2..]);
                let r = need!(reg(op[1]));
                match guarded(|| if code == "E" { r.ext_val(&vals) } else { r.ext_ref(&vals) }) {
                    Ok(true) => {}
                    Ok(false) => unsupported!(),
                    Err(m) => writeln!(out, "p {} {}", idx, m).unwrap(),
                }
            }
            "M" => {
                let (a, b) = (reg(op[1]), reg(op[2]));
                let other = match regs[b].clone() {
                    Some(x) => x,
                    None => {
                        writeln!(out, "e {} empty-register", idx).unwrap();
                        continue;
                    }
                };
                let r = need!(a);
                match guarded(|| r.merge_from(&other)) {
                    Ok(true) => {}
                    Ok(false) => unsupported!(),
                    Err(m) => writeln!(out, "p {} {}", idx, m).unwrap(),
                }
                if a != b {
                    // `other` was a clone only to satisfy the borrow checker when a == b; the
                    // real argument register is left as it is (merge takes &other).
                }
            }
            "K" => {
                let b = reg(op[2]);
                match regs[b].as_ref() {
                    Some(x) => {
                        let c = x.clone();
                        regs[reg(op[1])] = Some(c);
                    }
                    None => writeln!(out, "e {} empty-register", idx).unwrap(),
                }
            }
            "KF" => {
                // Clone::clone_from into an existing value (plain clone when the target register is still unset)
                let (a, b) = (reg(op[1]), reg(op[2]));
                match regs[b].clone() {
                    Some(src) => match regs[a].as_mut() {
                        Some(dst) => {
                            if let Err(m) = guarded(|| dst.clone_from(&src)) {
                                writeln!(out, "p {} {}", idx, m).unwrap();
                            }
                        }
                        None => regs[a] = Some(src),
                    },
                    None => writeln!(out, "e {} empty-register", idx).unwrap(),
                }
            }
            "S" | "SO" => {
                let r = need!(reg(op[1]));
                let res: Result<Option<Result<T, String>>, String> = guarded(|| match op[2] {
                    "j" => match r.to_json() {
                        Some(s) => T::from_json(&s),
                        None => None,
                    },
                    _ => match r.to_value() {
                        Some(v) => T::from_value(v),
                        None => None,
                    },
                });
                match res {
                    Ok(Some(Ok(v))) => {
                        if code == "S" {
                            regs[reg(op[1])] = Some(v);
                        }
                    }
                    Ok(Some(Err(m))) => writeln!(out, "d {} deserialize-error {}", idx, m.replace('\n', " ")).unwrap(),
                    Ok(None) => unsupported!(),
                    Err(m) => writeln!(out, "p {} {}", idx, m).unwrap(),
                }
            }
            "P" => {
                let cfg = ParCfg {
                    threads: op[2].parse().unwrap(),
                    min_len: op[3].parse().unwrap(),
                    max_len: op[4].parse().unwrap(),
                    byref: op[5] == "r" || op[5] == "br",
                    bridge: op[5] == "b" || op[5] == "br",
                    delay_seed: op[6].parse().unwrap(),
                    filter_seed: if op[7].starts_with('t') { 0 } else { op[7].parse().unwrap() },
                    filter_ge: if op[7].starts_with('t') { pf(&op[7][1..]) } else { f64::NAN },
                };
                let vals = pfs(&op[8..]);
                match guarded(|| T::par(&cfg, &vals)) {
                    Ok(Some(v)) => regs[reg(op[1])] = Some(v),
                    Ok(None) => unsupported!(),
                    Err(m) => writeln!(out, "p {} {}", idx, m).unwrap(),
                }
            }
            "O" | "OS" => {
                let rn = reg(op[1]);
                let r = need!(rn);
                let mut o = Obs::new();
                r.obs(&mut o);
                writeln!(out, "o {} {}{}", idx, rn, o.s).unwrap();
                if code == "OS" {
                    match r.to_value() {
                        Some(v) => {
                            let mut s = String::new();
                            flatten(&v, "", &mut s);
                            writeln!(out, "s {} {}{}", idx, rn, s).unwrap();
                        }
                        None => writeln!(out, "e {} unsupported", idx).unwrap(),
                    }
                }
            }
            "T" => {
                let rn = reg(op[1]);
                let depth: usize = op[2].parse().unwrap();
                let alphabet = pfs(&op[3..]);
                let root = need!(rn).clone();
                let mut path = String::new();
                trie(&root, depth, &alphabet, &mut path, idx, out);
            }
            _ => writeln!(out, "e {} unknown-op {}", idx, code).unwrap(),
        }
    }
}

fn trie<T: Est>(node: &T, depth: usize, alphabet: &[f64], path: &mut String, idx: usize, out: &mut String) {
    // emit this node
    let mut o = Obs::new();
    node.obs(&mut o);
    let mut s = String::new();
    if let Some(v) = node.to_value() {
        flatten(&v, "", &mut s);
    }
    writeln!(out, "t {} {}{}{}", idx, if path.is_empty() { "-" } else { path.as_str() }, o.s, s).unwrap();
    if depth == 0 {
        return;
    }
    for (k, &a) in alphabet.iter().enumerate() {
        let mut child = node.clone();
        let res = guarded(|| child.add1(&[a]));
        path.push(char::from_digit(k as u32, 36).unwrap());
        match res {
            Ok(()) => trie(&child, depth - 1, alphabet, path, idx, out),
            Err(m) => writeln!(out, "p {} trie-path={} {}", idx, path, m).unwrap(),
        }
        path.pop();
    }
}

fn run_hist<H: HistT>(ops: &[Vec<&str>], out: &mut String) {
    let mut regs: Vec<Option<H>> = (0..NREG).map(|_| None).collect();
    for (idx, op) in ops.iter().enumerate() {
        let code = op[0];
        macro_rules! need {
            ($r:expr) => {
                match regs[$r].as_mut() {
                    Some(x) => x,
                    None => {
                        writeln!(out, "e {} empty-register", idx).unwrap();
                        continue;
                    }
                }
            };
        }
        match code {
            "HR" | "HRF" => {
                let vals = pfs(&op[2..]);
                match guarded(|| if code == "HR" { H::h_from_ranges(vals) } else { H::h_from_ranges_filtered(vals) }) {
                    Ok(Ok(h)) => {
                        regs[reg(op[1])] = Some(h);
                        writeln!(out, "r {} ok", idx).unwrap();
                    }
                    Ok(Err(e)) => writeln!(out, "r {} err {}", idx, e).unwrap(),
                    Err(m) => writeln!(out, "p {} {}", idx, m).unwrap(),
                }
            }
            "HRI" => {
                let vals = pfs(&op[2..]);
                match guarded(|| H::h_from_ranges_unbounded(vals, H::LEN + 1000)) {
                    Ok((Ok(h), polls)) => {
                        regs[reg(op[1])] = Some(h);
                        writeln!(out, "r {} ok polls={}", idx, polls).unwrap();
                    }
                    Ok((Err(e), polls)) => writeln!(out, "r {} err {} polls={}", idx, e, polls).unwrap(),
                    Err(m) => writeln!(out, "p {} {}", idx, m).unwrap(),
                }
            }
            "HW" => match guarded(|| H::h_const_width(pf(op[2]), pf(op[3]))) {
                Ok(h) => regs[reg(op[1])] = Some(h),
                Err(m) => writeln!(out, "p {} {}", idx, m).unwrap(),
            },
            "HF" => {
                let vals = pfs(&op[2..]);
                let r = need!(reg(op[1]));
                let mut s = String::new();
                for x in vals {
                    match guarded(|| r.h_find(x)) {
                        Ok(Ok(i)) => write!(s, " {}", i).unwrap(),
                        Ok(Err(())) => s.push_str(" E"),
                        Err(_) => s.push_str(" !"),
                    }
                }
                writeln!(out, "f {}{}", idx, s).unwrap();
            }
            "HA" => {
                let vals = pfs(&op[2..]);
                let r = need!(reg(op[1]));
                let mut s = String::new();
                for x in vals {
                    match guarded(|| r.h_add(x)) {
                        Ok(Ok(())) => s.push_str(" 1"),
                        Ok(Err(())) => s.push_str(" E"),
                        Err(_) => s.push_str(" !"),
                    }
                }
                writeln!(out, "a {}{}", idx, s).unwrap();
            }
            "H+" | "M" => {
                let (a, b) = (reg(op[1]), reg(op[2]));
                let other = match regs[b].clone() {
                    Some(x) => x,
                    None => {
                        writeln!(out, "e {} empty-register", idx).unwrap();
                        continue;
                    }
                };
                let r = need!(a);
                if let Err(m) = guarded(|| if code == "M" { r.h_merge(&other) } else { r.h_add_assign(&other) }) {
                    writeln!(out, "p {} {}", idx, m).unwrap();
                }
            }
            "H*" => {
                let k: u64 = op[2].parse().unwrap();
                let r = need!(reg(op[1]));
                if let Err(m) = guarded(|| r.h_mul_assign(k)) {
                    writeln!(out, "p {} {}", idx, m).unwrap();
                }
            }
            "HZ" => {
                let r = need!(reg(op[1]));
                if let Err(m) = guarded(|| r.h_reset()) {
                    writeln!(out, "p {} {}", idx, m).unwrap();
                }
            }
            "K" => {
                let b = reg(op[2]);
                match regs[b].as_ref() {
                    Some(x) => {
                        let c = x.clone();
                        regs[reg(op[1])] = Some(c);
                    }
                    None => writeln!(out, "e {} empty-register", idx).unwrap(),
                }
            }
            "KF" => {
                // Clone::clone_from into an existing value (plain clone when the target register is still unset)
                let (a, b) = (reg(op[1]), reg(op[2]));
                match regs[b].clone() {
                    Some(src) => match regs[a].as_mut() {
                        Some(dst) => {
                            if let Err(m) = guarded(|| dst.clone_from(&src)) {
                                writeln!(out, "p {} {}", idx, m).unwrap();
                            }
                        }
                        None => regs[a] = Some(src),
                    },
                    None => writeln!(out, "e {} empty-register", idx).unwrap(),
                }
            }
            "S" | "SO" => {
                let r = need!(reg(op[1]));
                let res: Result<Option<Result<H, String>>, String> = guarded(|| match op[2] {
                    "j" => match r.h_to_json() {
                        Some(s) => H::h_from_json(&s),
                        None => None,
                    },
                    _ => match r.h_to_value() {
                        Some(v) => H::h_from_value(v),
                        None => None,
                    },
                });
                match res {
                    Ok(Some(Ok(v))) => {
                        if code == "S" {
                            regs[reg(op[1])] = Some(v);
                        }
                    }
                    Ok(Some(Err(m))) => writeln!(out, "d {} deserialize-error {}", idx, m.replace('\n', " ")).unwrap(),
                    Ok(None) => writeln!(out, "e {} unsupported", idx).unwrap(),
                    Err(m) => writeln!(out, "p {} {}", idx, m).unwrap(),
                }
            }
            "O" => {
                let rn = reg(op[1]);
                let r = need!(rn);
                let mut s = String::new();
                hist::observe(r, &mut s);
                writeln!(out, "o {} {}{}", idx, rn, s).unwrap();
            }
            _ => writeln!(out, "e {} unknown-op {}", idx, code).unwrap(),
        }
    }
}

fn dispatch(ty: &str, params: &[&str], ops: &[Vec<&str>], out: &mut String) -> bool {
    use types::*;
    macro_rules! e {
        ($t:ty) => {{
            run_case::<$t>(params, ops, out);
            true
        }};
    }
    macro_rules! h {
        ($t:ty) => {{
            run_hist::<$t>(ops, out);
            true
        }};
    }
    match ty {
        "Mean" => e!(average::Mean),
        "Variance" => e!(average::Variance),
        "MeanWithError" => e!(average::MeanWithError),
        #[cfg(any(feature = "std", feature = "libm"))]
        "Skewness" => e!(average::Skewness),
        #[cfg(any(feature = "std", feature = "libm"))]
        "Kurtosis" => e!(average::Kurtosis),
        "Moments4" => e!(average::Moments4),
        "M4" => e!(M4),
        "M5" => e!(M5),
        "M6" => e!(M6),
        "M7" => e!(M7),
        "M8" => e!(M8),
        "M9" => e!(M9),
        "M10" => e!(M10),
        "M12" => e!(M12),
        "M17" => e!(M17),
        "M20" => e!(M20),
        "Min" => e!(average::Min),
        "Max" => e!(average::Max),
        #[cfg(any(feature = "std", feature = "libm"))]
        "Quantile" => e!(average::Quantile),
        "WeightedMean" => e!(average::WeightedMean),
        "WeightedMeanWithError" => e!(average::WeightedMeanWithError),
        "Covariance" => e!(average::Covariance),
        "CatMinMax" => e!(est::WCatMinMax),
        #[cfg(any(feature = "std", feature = "libm"))]
        "CatVarQ" => e!(est::WCatVarQ),
        #[cfg(any(feature = "std", feature = "libm"))]
        "Cat5" => e!(est::WCat5),
        #[cfg(any(feature = "std", feature = "libm"))]
        "CatSk3" => e!(est::WCatSk3),
        #[cfg(feature = "rayon")]
        "ProbeMean" => e!(probe::ProbeMean),
        #[cfg(feature = "rayon")]
        "ProbeVariance" => e!(probe::ProbeVariance),
        #[cfg(all(feature = "rayon", any(feature = "std", feature = "libm")))]
        "ProbeSkewness" => e!(probe::ProbeSkewness),
        #[cfg(all(feature = "rayon", any(feature = "std", feature = "libm")))]
        "ProbeKurtosis" => e!(probe::ProbeKurtosis),
        #[cfg(feature = "rayon")]
        "ProbeMin" => e!(probe::ProbeMin),
        #[cfg(feature = "rayon")]
        "ProbeMax" => e!(probe::ProbeMax),
        #[cfg(feature = "rayon")]
        "ProbeMoments4" => e!(probe::ProbeMoments4),
        #[cfg(feature = "rayon")]
        "ProbeM6" => e!(probe::ProbeM6),
        "H1" => h!(H1),
        "H2" => h!(H2),
        "H3" => h!(H3),
        "H4" => h!(H4),
        "H7" => h!(H7),
        "H10" => h!(H10),
        "H15" => h!(H15),
        "H16" => h!(H16),
        "H31" => h!(H31),
        "H33" => h!(H33),
        "H64" => h!(H64),
        "H100" => h!(H100),
        "H127" => h!(H127),
        "Histogram10" => h!(average::Histogram10),
        #[cfg(feature = "nightly")]
        "CH1" => h!(average::histogram_const::Histogram<1>),
        #[cfg(feature = "nightly")]
        "CH2" => h!(average::histogram_const::Histogram<2>),
        #[cfg(feature = "nightly")]
        "CH3" => h!(average::histogram_const::Histogram<3>),
        #[cfg(feature = "nightly")]
        "CH4" => h!(average::histogram_const::Histogram<4>),
        #[cfg(feature = "nightly")]
        "CH7" => h!(average::histogram_const::Histogram<7>),
        #[cfg(feature = "nightly")]
        "CH10" => h!(average::histogram_const::Histogram<10>),
        #[cfg(feature = "nightly")]
        "CH15" => h!(average::histogram_const::Histogram<15>),
        #[cfg(feature = "nightly")]
        "CH16" => h!(average::histogram_const::Histogram<16>),
        #[cfg(feature = "nightly")]
        "CH31" => h!(average::histogram_const::Histogram<31>),
        #[cfg(feature = "nightly")]
        "CH33" => h!(average::histogram_const::Histogram<33>),
        #[cfg(feature = "nightly")]
        "CH64" => h!(average::histogram_const::Histogram<64>),
        #[cfg(feature = "nightly")]
        "CH127" => h!(average::histogram_const::Histogram<127>),
        #[cfg(feature = "nightly")]
        "CH100" => h!(average::histogram_const::Histogram<100>),
        _ => false,
    }
}

fn main() {
    std::panic::set_hook(Box::new(|info| {
        let msg = if let Some(s) = info.payload().downcast_ref::<&str>() {
            s.to_string()
        } else if let Some(s) = info.payload().downcast_ref::<String>() {
            s.clone()
        } else {
            "panic".to_string()
        };
        let loc = info.location().map(|l| format!("{}:{}", l.file(), l.line())).unwrap_or_default();
        let full = format!("{} @ {}", msg, loc);
        LAST_PANIC.with(|c| *c.borrow_mut() = full.clone());
        *LAST_PANIC_ANY.lock().unwrap() = full;
    }));

    let args: Vec<String> = std::env::args().collect();
    if args.len() > 1 && args[1] == "--version-info" {
        println!(
            "avdrive debug_assertions={} features: libm={} std={} rayon={} nightly={} serde={}",
            cfg!(debug_assertions),
            cfg!(feature = "libm"),
            cfg!(feature = "std"),
            cfg!(feature = "rayon"),
            cfg!(feature = "nightly"),
            cfg!(feature = "serde")
        );
        return;
    }
    let mut input = String::new();
    if args.len() > 1 {
        input = std::fs::read_to_string(&args[1]).expect("cannot read case file");
    } else {
        std::io::stdin().read_to_string(&mut input).unwrap();
    }

    let stdout = std::io::stdout();
    let mut w = std::io::BufWriter::with_capacity(1 << 20, stdout.lock());
    let mut out = String::new();
    let mut cur: Option<(String, String, Vec<String>)> = None;
    let mut ops: Vec<Vec<&str>> = Vec::new();
    for line in input.lines() {
        let toks: Vec<&str> = line.split_ascii_whitespace().collect();
        if toks.is_empty() {
            continue;
        }
        match toks[0] {
            "C" => {
                cur = Some((
                    toks[1].to_string(),
                    toks[2].to_string(),
                    toks[3..].iter().map(|s| s.to_string()).collect(),
                ));
                ops.clear();
            }
            "X" => {
                if let Some((id, ty, params)) = cur.take() {
                    out.clear();
                    writeln!(out, "C {}", id).unwrap();
                    let pr: Vec<&str> = params.iter().map(|s| s.as_str()).collect();
                    if !dispatch(&ty, &pr, &ops, &mut out) {
                        writeln!(out, "e -1 unknown-type {}", ty).unwrap();
                    }
                    writeln!(out, "X {}", id).unwrap();
                    w.write_all(out.as_bytes()).unwrap();
                }
            }
            _ => ops.push(toks),
        }
    }
    w.flush().unwrap();
    let _ = hex(0.0);
}
