//! Schedule probe for C19.  `Probe<T>` wraps a real estimator `T` and is given the crate's
//! *own exported* `impl_from_par_iterator!` — the same fold/reduce code the crate's types
//! use — so that collecting into it exposes which split/merge tree rayon produced.
//!
//! Items are distinct values; a per-collect lookup table maps a value's bit pattern to
//! its index in the input, so the probe can check online that
//!   * every fold leaf absorbs a contiguous, ascending run of indices,
//!   * every merge joins adjacent runs in order (or has an empty side),
//! and it records the complete tree, which the monitor replays sequentially.

use std::collections::HashMap;
use std::sync::{Arc, RwLock};

use average::Merge;

use crate::est::{Est, Obs, ParCfg, Params};

static LOOKUP: RwLock<Option<Arc<HashMap<u64, usize>>>> = RwLock::new(None);

pub fn set_lookup(data: &[f64]) -> bool {
    let mut m = HashMap::new();
    for (i, x) in data.iter().enumerate() {
        if m.insert(x.to_bits(), i).is_some() {
            return false;
        }
    }
    *LOOKUP.write().unwrap() = Some(Arc::new(m));
    true
}

fn lookup(x: f64) -> Option<usize> {
    LOOKUP.read().unwrap().as_ref().and_then(|m| m.get(&x.to_bits()).copied())
}

#[derive(Clone)]
pub struct Probe<T: Est> {
    pub inner: T,
    /// disjoint, sorted, maximal half-open index ranges absorbed so far
    ranges: Vec<(usize, usize)>,
    count: usize,
    /// recorded tree: `E` empty identity, `L<lo>-<hi>` fold leaf that absorbed the ascending
    /// contiguous run lo..hi, `X<count>` a leaf that absorbed items in any other order,
    /// `(a b)` = a.merge(&b)
    tree: String,
    leaf: bool,
    ordered: bool,
    last: usize,
    bad: Vec<String>,
    /// merges whose operands were not adjacent index runs in order (allowed; reported)
    nonadjacent: usize,
}

fn insert_range(ranges: &mut Vec<(usize, usize)>, lo: usize, hi: usize) -> bool {
    // returns false on overlap (an item absorbed twice)
    for &(a, b) in ranges.iter() {
        if lo < b && a < hi {
            return false;
        }
    }
    ranges.push((lo, hi));
    ranges.sort();
    let mut out: Vec<(usize, usize)> = Vec::with_capacity(ranges.len());
    for &(a, b) in ranges.iter() {
        if let Some(last) = out.last_mut() {
            if last.1 == a {
                last.1 = b;
                continue;
            }
        }
        out.push((a, b));
    }
    *ranges = out;
    true
}

impl<T: Est> Probe<T> {
    pub fn new() -> Self {
        Probe {
            inner: T::mk_new(&Params { p: 0.5 }),
            ranges: vec![],
            count: 0,
            tree: String::new(),
            leaf: true,
            ordered: true,
            last: 0,
            bad: vec![],
            nonadjacent: 0,
        }
    }

    fn tree_string(&self) -> String {
        if self.leaf {
            if self.count == 0 {
                "E".to_string()
            } else if self.ordered && self.ranges.len() == 1 {
                format!("L{}-{}", self.ranges[0].0, self.ranges[0].1)
            } else {
                format!("X{}", self.count)
            }
        } else {
            self.tree.clone()
        }
    }

    pub fn add(&mut self, x: f64) {
        if !self.leaf {
            self.bad.push("add-after-merge".to_string());
        }
        match lookup(x) {
            None => self.bad.push(format!("unknown-item:{:016x}", x.to_bits())),
            Some(i) => {
                if self.count > 0 && i != self.last + 1 {
                    self.ordered = false;
                }
                self.last = i;
                if !insert_range(&mut self.ranges, i, i + 1) {
                    self.bad.push(format!("duplicate-item:{}", i));
                }
            }
        }
        self.count += 1;
        self.inner.add1(&[x]);
    }
}

impl<T: Est> Merge for Probe<T> {
    fn merge(&mut self, other: &Self) {
        let t = format!("({} {})", self.tree_string(), other.tree_string());
        if self.count > 0 && other.count > 0 {
            let adjacent = self.ranges.len() == 1
                && other.ranges.len() == 1
                && self.ranges[0].1 == other.ranges[0].0;
            if !adjacent {
                self.nonadjacent += 1;
            }
        }
        for &(a, b) in other.ranges.iter() {
            if !insert_range(&mut self.ranges, a, b) {
                self.bad.push(format!("duplicate-item:{}-{}", a, b));
            }
        }
        self.count += other.count;
        self.nonadjacent += other.nonadjacent;
        self.bad.extend(other.bad.iter().cloned());
        self.tree = t;
        self.leaf = false;
        self.inner.merge_from(&other.inner);
    }
}

macro_rules! probe_type {
    ($alias:ident, $inner:ty) => {
        pub type $alias = Probe<$inner>;
        average::impl_from_par_iterator!($alias);

        impl Est for $alias {
            fn mk_new(_p: &Params) -> Self {
                Probe::new()
            }
            fn mk_default() -> Self {
                Probe::new()
            }
            fn add1(&mut self, v: &[f64]) {
                self.add(v[0]);
            }
            fn merge_from(&mut self, o: &Self) -> bool {
                self.merge(o);
                true
            }
            fn par(cfg: &ParCfg, data: &[f64]) -> Option<Self> {
                // indices are positions in the sequence that survives the filter stage
                let kept: Vec<f64> =
                    data.iter().copied().filter(|x| crate::est::keep2(*x, cfg.filter_seed, cfg.filter_ge)).collect();
                if !set_lookup(&kept) {
                    return None;
                }
                Some(crate::est::par_collect::<$alias>(cfg, data))
            }
            fn obs(&self, o: &mut Obs) {
                self.inner.obs(o);
                o.raw("probe_count", &format!("u{}", self.count));
                o.raw(
                    "probe_ranges",
                    &format!(
                        "s{}",
                        if self.ranges.is_empty() {
                            "-".to_string()
                        } else {
                            self.ranges.iter().map(|(a, b)| format!("{}-{}", a, b)).collect::<Vec<_>>().join(",")
                        }
                    ),
                );
                o.raw("probe_nonadjacent", &format!("u{}", self.nonadjacent));
                o.raw("probe_bad", &format!("s{}", if self.bad.is_empty() { "-".to_string() } else { self.bad.join("|") }));
                o.raw("probe_tree", &format!("s{}", self.tree_string().replace(' ', "_")));
            }
        }
    };
}

probe_type!(ProbeMean, average::Mean);
probe_type!(ProbeVariance, average::Variance);
#[cfg(any(feature = "std", feature = "libm"))]
probe_type!(ProbeSkewness, average::Skewness);
#[cfg(any(feature = "std", feature = "libm"))]
probe_type!(ProbeKurtosis, average::Kurtosis);
probe_type!(ProbeMin, average::Min);
probe_type!(ProbeMax, average::Max);
probe_type!(ProbeMoments4, average::Moments4);
probe_type!(ProbeM6, crate::types::M6);
